//! Independent mailbox reference of the rules of chess: the oracle for C01-C03, C05, C06, C13.
//! Shares no code, table or data layout with the implementation (no bitboards, no magic, no packed
//! move).  Square index: 0 = a8 .. 7 = h8, 56 = a1 .. 63 = h1 (file = i % 8, row = i / 8, row 0 = rank 8)
//! - the same numbering the implementation uses, so squares can be compared directly.
//!
//! Validated natively against the published perft numbers (tests/oracle_perft.rs).

pub const EMPTY: u8 = 0;
pub const P: u8 = 1;
pub const N: u8 = 2;
pub const B: u8 = 3;
pub const R: u8 = 4;
pub const Q: u8 = 5;
pub const K: u8 = 6;

#[derive(Clone, Copy, PartialEq, Eq, Debug)]
pub struct Pos {
    pub sq: [u8; 64],
    /// king squares, [white, black]; maintained by `apply` (saves a 64-step search in the solver)
    pub kings: [u8; 2],
    pub turn: u8, // 0 white, 1 black
    pub wk: bool,
    pub wq: bool,
    pub bk: bool,
    pub bq: bool,
    pub ep: u8, // 0 = none (a8 can never be an e.p. target)
    pub half: u32,
    pub full: u32,
}

#[inline]
pub fn kind(p: u8) -> u8 { p & 7 }
#[inline]
pub fn color(p: u8) -> u8 { (p >> 3) & 1 }
#[inline]
pub fn mk(kind: u8, color: u8) -> u8 { kind | (color << 3) }

#[inline]
fn on_board(f: i32, r: i32) -> bool { f >= 0 && f < 8 && r >= 0 && r < 8 }

const KNIGHT_D: [(i32, i32); 8] = [(1, 2), (2, 1), (2, -1), (1, -2), (-1, -2), (-2, -1), (-2, 1), (-1, 2)];
const KING_D: [(i32, i32); 8] = [(1, 0), (1, 1), (0, 1), (-1, 1), (-1, 0), (-1, -1), (0, -1), (1, -1)];

/// Is square `s` attacked by any piece of colour `by`?
pub fn attacked(pos: &Pos, s: u8, by: u8) -> bool {
    let f0 = (s % 8) as i32;
    let r0 = (s / 8) as i32;
    // sliders + king along the 8 directions
    let mut d = 0;
    while d < 8 {
        let (df, dr) = KING_D[d];
        let diagonal = df != 0 && dr != 0;
        let mut f = f0 + df;
        let mut r = r0 + dr;
        let mut step = 1;
        while step <= 7 && on_board(f, r) {
            let p = pos.sq[(r * 8 + f) as usize];
            if p != EMPTY {
                if color(p) == by {
                    let k = kind(p);
                    if k == Q || (diagonal && k == B) || (!diagonal && k == R) || (step == 1 && k == K) {
                        return true;
                    }
                }
                break;
            }
            f += df;
            r += dr;
            step += 1;
        }
        d += 1;
    }
    let mut i = 0;
    while i < 8 {
        let (df, dr) = KNIGHT_D[i];
        let (f, r) = (f0 + df, r0 + dr);
        if on_board(f, r) && pos.sq[(r * 8 + f) as usize] == mk(N, by) {
            return true;
        }
        i += 1;
    }
    // a white pawn attacks towards row-1 (north): square s is attacked by a white pawn standing on row+1
    let pr = if by == 0 { r0 + 1 } else { r0 - 1 };
    if on_board(f0 - 1, pr) && pos.sq[(pr * 8 + f0 - 1) as usize] == mk(P, by) { return true; }
    if on_board(f0 + 1, pr) && pos.sq[(pr * 8 + f0 + 1) as usize] == mk(P, by) { return true; }
    false
}

fn path_clear(pos: &Pos, from: u8, to: u8) -> bool {
    let (f0, r0) = ((from % 8) as i32, (from / 8) as i32);
    let (f1, r1) = ((to % 8) as i32, (to / 8) as i32);
    let df = (f1 - f0).signum();
    let dr = (r1 - r0).signum();
    let mut f = f0 + df;
    let mut r = r0 + dr;
    let mut guard = 0;
    while (f != f1 || r != r1) && guard < 7 {
        if pos.sq[(r * 8 + f) as usize] != EMPTY { return false; }
        f += df;
        r += dr;
        guard += 1;
    }
    true
}

/// Pseudo-legal by the rules (own king safety after the move ignored; the castling conditions - right,
/// rook at home, empty squares, king's start/transit/target squares not attacked - are part of the
/// castling rule and are included).  promo: 0 none, else N/B/R/Q.
pub fn pseudo_legal(pos: &Pos, from: u8, to: u8, promo: u8) -> bool {
    if from >= 64 || to >= 64 || from == to { return false; }
    let p = pos.sq[from as usize];
    if p == EMPTY || color(p) != pos.turn { return false; }
    let t = pos.sq[to as usize];
    if t != EMPTY && color(t) == pos.turn { return false; }
    let us = pos.turn;
    let (f0, r0) = ((from % 8) as i32, (from / 8) as i32);
    let (f1, r1) = ((to % 8) as i32, (to / 8) as i32);
    let (adf, adr) = ((f1 - f0).abs(), (r1 - r0).abs());
    let k = kind(p);
    if k != P && promo != 0 { return false; }
    match k {
        N => (adf == 1 && adr == 2) || (adf == 2 && adr == 1),
        B => adf == adr && path_clear(pos, from, to),
        R => (adf == 0 || adr == 0) && path_clear(pos, from, to),
        Q => (adf == adr || adf == 0 || adr == 0) && path_clear(pos, from, to),
        K => {
            if adf <= 1 && adr <= 1 { return true; }
            // castling
            let home: u8 = if us == 0 { 60 } else { 4 };
            if from != home || r1 != r0 || adf != 2 { return false; }
            let king_side = f1 == 6;
            let right = match (us, king_side) { (0, true) => pos.wk, (0, false) => pos.wq, (_, true) => pos.bk, (_, false) => pos.bq };
            if !right { return false; }
            let rook_sq = if king_side { home + 3 } else { home - 4 };
            if pos.sq[rook_sq as usize] != mk(R, us) { return false; }
            let them = 1 - us;
            if king_side {
                pos.sq[(home + 1) as usize] == EMPTY && pos.sq[(home + 2) as usize] == EMPTY
                    && !attacked(pos, home, them) && !attacked(pos, home + 1, them) && !attacked(pos, home + 2, them)
            } else {
                pos.sq[(home - 1) as usize] == EMPTY && pos.sq[(home - 2) as usize] == EMPTY && pos.sq[(home - 3) as usize] == EMPTY
                    && !attacked(pos, home, them) && !attacked(pos, home - 1, them) && !attacked(pos, home - 2, them)
            }
        }
        P => {
            let dir = if us == 0 { -1 } else { 1 };
            let start_row = if us == 0 { 6 } else { 1 };
            let last_row = if us == 0 { 0 } else { 7 };
            let promo_ok = if r1 == last_row { promo == N || promo == B || promo == R || promo == Q } else { promo == 0 };
            if !promo_ok { return false; }
            if f1 == f0 {
                if t != EMPTY { return false; }
                if r1 == r0 + dir { return true; }
                r0 == start_row && r1 == r0 + 2 * dir && pos.sq[((r0 + dir) * 8 + f0) as usize] == EMPTY
            } else if adf == 1 && r1 == r0 + dir {
                if t != EMPTY { return true; }
                pos.ep != 0 && to == pos.ep
            } else {
                false
            }
        }
        _ => false,
    }
}

pub fn is_ep_capture(pos: &Pos, from: u8, to: u8) -> bool {
    kind(pos.sq[from as usize]) == P && (from % 8) != (to % 8) && pos.sq[to as usize] == EMPTY
}

pub fn is_castle(pos: &Pos, from: u8, to: u8) -> bool {
    kind(pos.sq[from as usize]) == K && ((from % 8) as i32 - (to % 8) as i32).abs() == 2
}

pub fn is_capture(pos: &Pos, from: u8, to: u8) -> bool {
    pos.sq[to as usize] != EMPTY || is_ep_capture(pos, from, to)
}

/// Successor position by the rules; precondition: pseudo_legal(pos, from, to, promo).
pub fn apply(pos: &Pos, from: u8, to: u8, promo: u8) -> Pos {
    let mut n = *pos;
    let p = pos.sq[from as usize];
    let us = pos.turn;
    let k = kind(p);
    let capture = is_capture(pos, from, to);
    if is_ep_capture(pos, from, to) {
        let victim = if us == 0 { to + 8 } else { to - 8 };
        n.sq[victim as usize] = EMPTY;
    }
    if is_castle(pos, from, to) {
        let (rf, rt) = if to % 8 == 6 { (to + 1, to - 1) } else { (to - 2, to + 1) };
        n.sq[rt as usize] = n.sq[rf as usize];
        n.sq[rf as usize] = EMPTY;
    }
    n.sq[from as usize] = EMPTY;
    n.sq[to as usize] = if promo != 0 { mk(promo, us) } else { p };
    if k == K { n.kings[us as usize] = to; }
    // castling rights: lost when the king or the rook leaves home, or anything lands on a rook home square
    if from == 60 || to == 60 { n.wk = false; n.wq = false; }
    if from == 4 || to == 4 { n.bk = false; n.bq = false; }
    if from == 63 || to == 63 { n.wk = false; }
    if from == 56 || to == 56 { n.wq = false; }
    if from == 7 || to == 7 { n.bk = false; }
    if from == 0 || to == 0 { n.bq = false; }
    n.ep = if k == P && ((from / 8) as i32 - (to / 8) as i32).abs() == 2 { (from + to) / 2 } else { 0 };
    n.half = if k == P || capture { 0 } else { pos.half + 1 };
    n.full = pos.full + us as u32;
    n.turn = 1 - us;
    n
}

/// Is the king of colour `c` attacked in `pos`?
pub fn in_check(pos: &Pos, c: u8) -> bool {
    attacked(pos, pos.kings[c as usize], 1 - c)
}

/// Own king not attacked after a pseudo-legal move; precondition: pseudo_legal.
pub fn leaves_king_safe(pos: &Pos, from: u8, to: u8, promo: u8) -> bool {
    let n = apply(pos, from, to, promo);
    !in_check(&n, pos.turn)
}

pub fn legal(pos: &Pos, from: u8, to: u8, promo: u8) -> bool {
    pseudo_legal(pos, from, to, promo) && leaves_king_safe(pos, from, to, promo)
}

// ------------------------------------------------------------------------------------------------
// Native-only helpers (oracle validation, replay rendering).  Not used inside the solver.
// ------------------------------------------------------------------------------------------------

#[cfg(not(kani))]
pub mod native {
    use super::*;

    pub fn from_fen(fen: &str) -> Option<Pos> {
        let parts: Vec<&str> = fen.split_whitespace().collect();
        if parts.len() < 4 { return None; }
        let mut sq = [EMPTY; 64];
        let mut kings = [64u8; 2];
        let mut i = 0usize;
        for ch in parts[0].chars() {
            match ch {
                '/' => {}
                '1'..='8' => i += ch.to_digit(10)? as usize,
                _ => {
                    let c = if ch.is_ascii_uppercase() { 0 } else { 1 };
                    let k = match ch.to_ascii_lowercase() { 'p' => P, 'n' => N, 'b' => B, 'r' => R, 'q' => Q, 'k' => K, _ => return None };
                    if i >= 64 { return None; }
                    sq[i] = mk(k, c);
                    if k == K { kings[c as usize] = i as u8; }
                    i += 1;
                }
            }
        }
        if i != 64 { return None; }
        let turn = match parts[1] { "w" => 0, "b" => 1, _ => return None };
        let c = parts[2];
        let ep = if parts[3] == "-" { 0 } else { sq_from_str(parts[3])? };
        let half = parts.get(4).map_or(Some(0), |s| s.parse().ok())?;
        let full = parts.get(5).map_or(Some(1), |s| s.parse().ok())?;
        Some(Pos { sq, kings, turn, wk: c.contains('K'), wq: c.contains('Q'), bk: c.contains('k'), bq: c.contains('q'), ep, half, full })
    }

    pub fn sq_from_str(s: &str) -> Option<u8> {
        let b = s.as_bytes();
        if b.len() != 2 || !(b'a'..=b'h').contains(&b[0]) || !(b'1'..=b'8').contains(&b[1]) { return None; }
        Some((b'8' - b[1]) * 8 + (b[0] - b'a'))
    }

    pub fn sq_to_str(s: u8) -> String {
        if s >= 64 { return format!("?{}", s); }
        format!("{}{}", (b'a' + s % 8) as char, (b'8' - s / 8) as char)
    }

    pub fn promo_char(p: u8) -> &'static str {
        match p { N => "n", B => "b", R => "r", Q => "q", _ => "" }
    }

    pub fn uci(from: u8, to: u8, promo: u8) -> String {
        format!("{}{}{}", sq_to_str(from), sq_to_str(to), promo_char(promo))
    }

    pub fn to_fen(pos: &Pos) -> String {
        let mut s = String::new();
        for r in 0..8 {
            let mut run = 0;
            for f in 0..8 {
                let p = pos.sq[r * 8 + f];
                if p == EMPTY { run += 1; continue; }
                if run > 0 { s.push_str(&run.to_string()); run = 0; }
                let ch = match kind(p) { P => 'p', N => 'n', B => 'b', R => 'r', Q => 'q', _ => 'k' };
                s.push(if color(p) == 0 { ch.to_ascii_uppercase() } else { ch });
            }
            if run > 0 { s.push_str(&run.to_string()); }
            if r < 7 { s.push('/'); }
        }
        let mut c = String::new();
        if pos.wk { c.push('K'); }
        if pos.wq { c.push('Q'); }
        if pos.bk { c.push('k'); }
        if pos.bq { c.push('q'); }
        if c.is_empty() { c.push('-'); }
        let ep = if pos.ep == 0 { "-".to_string() } else { sq_to_str(pos.ep) };
        format!("{} {} {} {} {} {}", s, if pos.turn == 0 { "w" } else { "b" }, c, ep, pos.half, pos.full)
    }

    /// All (from, to, promo) keys that are pseudo-legal, by brute force over the key space.
    pub fn pseudo_legal_keys(pos: &Pos) -> Vec<(u8, u8, u8)> {
        let mut v = Vec::new();
        for from in 0..64u8 {
            if pos.sq[from as usize] == EMPTY || color(pos.sq[from as usize]) != pos.turn { continue; }
            for to in 0..64u8 {
                for promo in [0, N, B, R, Q] {
                    if pseudo_legal(pos, from, to, promo) { v.push((from, to, promo)); }
                }
            }
        }
        v
    }

    pub fn legal_keys(pos: &Pos) -> Vec<(u8, u8, u8)> {
        pseudo_legal_keys(pos).into_iter().filter(|&(f, t, p)| leaves_king_safe(pos, f, t, p)).collect()
    }

    pub fn perft(pos: &Pos, depth: u32) -> u64 {
        if depth == 0 { return 1; }
        let mut n = 0;
        for (f, t, p) in legal_keys(pos) {
            n += perft(&apply(pos, f, t, p), depth - 1);
        }
        n
    }
}
