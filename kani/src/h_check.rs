//! C05.1 / C05.3 / C11.4 on fully symbolic boards (any number of pieces, one king per side).

use crate::cov;
use crate::sym;
use inkayaku_board::verif;
use inkayaku_board::Bitboard;
use inkayaku_core::constants::Color;

pub fn any_side_full() -> [u64; 7] {
    let a: [u64; 7] = [0, sym::u64(), sym::u64(), sym::u64(), sym::u64(), sym::u64(), sym::u64()];
    sym::assume(a[6].count_ones() == 1);
    sym::assume(a[1] & a[2] == 0 && (a[1] | a[2]) & a[3] == 0 && (a[1] | a[2] | a[3]) & a[4] == 0 && (a[1] | a[2] | a[3] | a[4]) & a[5] == 0 && (a[1] | a[2] | a[3] | a[4] | a[5]) & a[6] == 0);
    a
}
pub fn all7(a: &[u64; 7]) -> u64 { a[1] | a[2] | a[3] | a[4] | a[5] | a[6] }
fn bit(b: u64, f: i32, r: i32) -> bool { f >= 0 && f < 8 && r >= 0 && r < 8 && (b >> (r * 8 + f)) & 1 == 1 }

/// Reference: is the king `us_king` (one bit) of side `us` (0 white) attacked by `them`?  Walks from the
/// king square over the bitboards (8 rays <= 7 steps, 8 knight offsets, 2 pawn offsets, adjacent king).
pub fn ref_in_check(us_king: u64, occ: u64, them: &[u64; 7], us: u32) -> bool {
    let s = us_king.trailing_zeros() as i32;
    let (f0, r0) = (s % 8, s / 8);
    const D: [(i32, i32); 8] = [(1, 0), (-1, 0), (0, 1), (0, -1), (1, 1), (1, -1), (-1, 1), (-1, -1)];
    let mut d = 0;
    while d < 8 {
        let (df, dr) = D[d];
        let mut step = 1;
        while step <= 7 {
            let (f, r) = (f0 + df * step, r0 + dr * step);
            if !(f >= 0 && f < 8 && r >= 0 && r < 8) { break; }
            if bit(occ, f, r) {
                if bit(them[5], f, r) || (d < 4 && bit(them[4], f, r)) || (d >= 4 && bit(them[3], f, r)) || (step == 1 && bit(them[6], f, r)) { return true; }
                break;
            }
            step += 1;
        }
        d += 1;
    }
    const KN: [(i32, i32); 8] = [(1, 2), (2, 1), (2, -1), (1, -2), (-1, -2), (-2, -1), (-2, 1), (-1, 2)];
    let mut i = 0;
    while i < 8 {
        if bit(them[2], f0 + KN[i].0, r0 + KN[i].1) { return true; }
        i += 1;
    }
    // enemy pawns attacking a white king stand one row towards rank 8 (smaller row index)
    let pr = if us == 0 { r0 - 1 } else { r0 + 1 };
    bit(them[1], f0 - 1, pr) || bit(them[1], f0 + 1, pr)
}

pub fn any_full_board() -> (Bitboard, [u64; 7], [u64; 7]) {
    let w = any_side_full();
    let b = any_side_full();
    sym::assume(all7(&w) & all7(&b) == 0);
    let turn = sym::u32();
    sym::assume(turn < 2);
    let full = sym::u32();
    sym::assume(full >= 1 && full < 100000);
    // any e.p. value: neither check detection nor the terminal evaluation may depend on it
    let ep = sym::u32();
    sym::assume(ep < 64);
    let bb = Bitboard { white: verif::player_state(w, sym::bool(), sym::bool()), black: verif::player_state(b, sym::bool(), sym::bool()), turn, en_passant_square_shift: ep, fullmove_clock: full, halfmove_clock: 0 };
    #[cfg(not(kani))]
    sym::note("position", crate::native_util::describe(&bb));
    (bb, w, b)
}

/// C05.1: is_in_check / is_current_in_check / is_valid on every board with one king per side.  `side`: 0 = the
/// assertions about the white king, 1 = about the black king, 2 = all four (each API call is an assertion
/// about one king: is_current_in_check about the mover's, is_valid about the other's).
pub fn c05_check_full(side: u8) {
    let (bb, w, b) = any_full_board();
    let occ = all7(&w) | all7(&b);
    let white_in_check = ref_in_check(w[6], occ, &b, 0);
    let black_in_check = ref_in_check(b[6], occ, &w, 1);
    cov!(white_in_check && black_in_check, "both kings attacked");
    cov!(occ.count_ones() >= 24, "24 or more pieces");
    cov!(!white_in_check && !black_in_check, "no king attacked");
    if side == 0 || side == 2 {
        assert!(bb.is_in_check(&Color::WHITE) == white_in_check, "C05.1 is_in_check(WHITE) disagrees with the rules");
        if bb.turn == 0 {
            assert!(bb.is_current_in_check() == white_in_check, "C05.1 is_current_in_check disagrees with the rules (white to move)");
        } else {
            assert!(bb.is_valid() == !white_in_check, "C05.1 is_valid disagrees with the rules (black to move)");
        }
    }
    if side == 1 || side == 2 {
        assert!(bb.is_in_check(&Color::BLACK) == black_in_check, "C05.1 is_in_check(BLACK) disagrees with the rules");
        if bb.turn == 1 {
            assert!(bb.is_current_in_check() == black_in_check, "C05.1 is_current_in_check disagrees with the rules (black to move)");
        } else {
            assert!(bb.is_valid() == !black_in_check, "C05.1 is_valid disagrees with the rules (white to move)");
        }
    }
}
