//! C04: the precomputed attack tables equal ray/step attacks; every lookup stays inside its table.

use crate::cov;
use crate::family::{bishop_ref, rook_ref};
use crate::sym;
use inkayaku_board::verif;

/// Rook lookup on one concrete square, occupancy a free 64-bit variable (the whole space).
pub fn c04_rook(sq: u32) {
    let occ = sym::u64();
    #[cfg(not(kani))]
    sym::note("lookup", format!("rook square={} occupancy={:#018x}", sq, occ));
    cov!(occ.count_ones() > 20, "crowded occupancy");
    let idx = verif::rook_index(sq as usize, occ);
    assert!(idx < verif::rook_table_len(sq as usize), "C04 rook magic index out of table bounds");
    assert!(verif::rook_attacks(sq, occ) == rook_ref(sq, occ), "C04 rook attack table differs from ray attacks");
}

pub fn c04_bishop(sq: u32) {
    let occ = sym::u64();
    #[cfg(not(kani))]
    sym::note("lookup", format!("bishop square={} occupancy={:#018x}", sq, occ));
    cov!(occ.count_ones() > 20, "crowded occupancy");
    let idx = verif::bishop_index(sq as usize, occ);
    assert!(idx < verif::bishop_table_len(sq as usize), "C04 bishop magic index out of table bounds");
    assert!(verif::bishop_attacks(sq, occ) == bishop_ref(sq, occ), "C04 bishop attack table differs from ray attacks");
}

pub fn step_ref(sq: u32, d: &[(i32, i32)]) -> u64 {
    let (f0, r0) = ((sq % 8) as i32, (sq / 8) as i32);
    let mut res = 0u64;
    let mut i = 0;
    while i < d.len() {
        let (f, r) = (f0 + d[i].0, r0 + d[i].1);
        if f >= 0 && f < 8 && r >= 0 && r < 8 { res |= 1u64 << (r * 8 + f); }
        i += 1;
    }
    res
}

/// The four leaper tables, square symbolic (all 4 x 64 entries).
pub fn c04_leapers() {
    let sq = sym::u32();
    sym::assume(sq < 64);
    #[cfg(not(kani))]
    sym::note("lookup", format!("leaper tables square={}", sq));
    cov!(sq == 0, "corner a8");
    cov!(sq == 63, "corner h1");
    assert!(verif::king_attacks(sq) == step_ref(sq, &[(1, 0), (1, 1), (0, 1), (-1, 1), (-1, 0), (-1, -1), (0, -1), (1, -1)]), "C04 king table differs from step pattern");
    assert!(verif::knight_attacks(sq) == step_ref(sq, &[(1, 2), (2, 1), (2, -1), (1, -2), (-1, -2), (-2, -1), (-2, 1), (-1, 2)]), "C04 knight table differs from step pattern");
    // row 0 is rank 8: a white pawn attacks towards smaller rows
    assert!(verif::white_pawn_attacks(sq) == step_ref(sq, &[(-1, -1), (1, -1)]), "C04 white pawn table differs from step pattern");
    assert!(verif::black_pawn_attacks(sq) == step_ref(sq, &[(-1, 1), (1, 1)]), "C04 black pawn table differs from step pattern");
}
