//! C13 (partial, DESIGN.md C13): `find_uci`, `make_uci`, `make_all_uci`, `uci_to_pgn` on the position
//! families.  Under Kani the pseudo-legal list is abstracted to "any one of its elements, or none"
//! (`gen_any_one` replaces `Bitboard::generate_pseudo_legal_moves`, running the real generator under
//! the push observer) and `alloc::fmt::format` returns an arbitrary short string, so the text -> element
//! matching is nondeterministic: every behaviour of the real `find` is included.  Natively (replay) the
//! real functions run on the UCI text of the move the solver selected.

use crate::cov;
use crate::family::*;
use crate::refchess::*;
use crate::sym;
use inkayaku_board::{Bitboard, Move, MoveFromUciError};

/// number of `sym` draws of one `format_any` call (fixed, so the native replayer can skip them)
pub const FORMAT_DRAWS: usize = 6;

#[cfg(kani)]
pub static mut RESTRICT_ILLEGAL: bool = false;
#[cfg(kani)]
pub static mut CUR_POS: Option<Pos> = None;
/// keys selected by the successive `gen_any_one` calls of one harness run
#[cfg(kani)]
pub static mut SEL: [Key; 2] = [(0, 0, 0); 2];
#[cfg(kani)]
pub static mut SEL_N: usize = 0;

/// Stub target for `Bitboard::generate_pseudo_legal_moves`: the 1-element list holding any one move the
/// real generator emits for this position, or the empty list.
#[cfg(kani)]
pub fn gen_any_one(this: &Bitboard) -> Vec<Move> {
    let q = any_key();
    let (m, mv) = observe(this, q, false);
    if m == 1 {
        unsafe {
            if SEL_N < 2 { SEL[SEL_N] = q; }
            SEL_N += 1;
        }
        vec![mv]
    } else {
        Vec::new()
    }
}

/// Stub target for `Bitboard::is_current_in_check` in `c13_san` only: the first call `uci_to_pgn` makes after
/// its validity check has accepted the move.  Cutting the path there ends the (unclaimed, and for CBMC
/// unaffordable) SAN-building success path right after the check that guards it; the error paths - the
/// claim - do not call it.
#[cfg(kani)]
pub fn cut_success_path(_this: &Bitboard) -> bool {
    sym::assume(false);
    false
}

/// Stub target for `Move::to_uci_string` (which is one `format!` over three freshly allocated strings - the
/// part CBMC cannot afford): an arbitrary ASCII string of 4 or 5 bytes.
#[cfg(kani)]
pub fn uci_string_any(_mv: &inkayaku_board::Move) -> String {
    format_any_string()
}

/// Stub target for `alloc::fmt::format`: an arbitrary ASCII string of 4 or 5 bytes.
#[cfg(kani)]
pub fn format_any(_args: core::fmt::Arguments<'_>) -> String {
    format_any_string()
}

#[cfg(kani)]
fn format_any_string() -> String {
    let b: [u8; 5] = [sym::u8() & 127, sym::u8() & 127, sym::u8() & 127, sym::u8() & 127, sym::u8() & 127];
    let five = sym::bool();
    let v = if five { vec![b[0], b[1], b[2], b[3], b[4]] } else { vec![b[0], b[1], b[2], b[3]] };
    unsafe { String::from_utf8_unchecked(v) }
}

/// Symbolic move text (4 or 5 ASCII bytes) under Kani.  Natively: consumes the same draws, then the
/// draws of the selection the solver made inside `gen_any_one`, and returns the UCI text of that move
/// (or "a1a1", which no generator emits, if the generator does not emit the selected key here).
fn text_for(bb: &Bitboard) -> ([u8; 5], usize, Option<Key>) {
    let b: [u8; 5] = [sym::u8() & 127, sym::u8() & 127, sym::u8() & 127, sym::u8() & 127, sym::u8() & 127];
    let five = sym::bool();
    #[cfg(kani)]
    {
        let _ = bb;
        (b, if five { 5 } else { 4 }, None)
    }
    #[cfg(not(kani))]
    {
        let _ = (b, five);
        selection_text(bb)
    }
}

#[cfg(not(kani))]
fn selection_text(bb: &Bitboard) -> ([u8; 5], usize, Option<Key>) {
    // the draws of gen_any_one
    let q = any_key();
    let (m, _) = observe(bb, q, false);
    let text = if m == 1 { native::uci(q.0, q.1, q.2) } else { "a1a1".to_string() };
    if m == 1 {
        // the draws of the one format_any call made by `find`
        for _ in 0..5 { let _ = sym::u8(); }
        let _ = sym::bool();
    }
    sym::note("move_text", text.clone());
    let mut out = [0u8; 5];
    out[..text.len()].copy_from_slice(text.as_bytes());
    (out, text.len(), if m == 1 { Some(q) } else { None })
}

fn as_str(b: &[u8; 5], len: usize) -> &str {
    unsafe { std::str::from_utf8_unchecked(&b[..len]) }
}

fn set_pos(_pos: &Pos, _restrict: bool) {
    #[cfg(kani)]
    unsafe {
        CUR_POS = Some(*_pos);
        RESTRICT_ILLEGAL = _restrict;
        SEL_N = 0;
    }
}

/// find_uci: Ok or Err, the board is unchanged; Ok(m) => m is legal; Err(MoveIsNotValid(m)) => m is not.
pub fn c13_find(kinds: &[u8], turn: u8, optional: bool) {
    let (pos, mut bb) = any_pos(kinds, turn, optional);
    set_pos(&pos, false);
    let (tb, tl, _sel) = text_for(&bb);
    let s0 = snap(&bb);
    let r = bb.find_uci(as_str(&tb, tl));
    #[cfg(not(kani))]
    {
        sym::note("result", format!("{:?}", r.as_ref().map(|m| m.to_uci_string())));
        sym::note("board_after", crate::native_util::describe(&bb));
    }
    let unchanged = same(&bb, &s0);
    match &r {
        Ok(m) => {
            cov!(true, "find_uci accepts a move");
            let k = move_key(m);
            assert!(legal(&pos, k.0, k.1, k.2), "C13 find_uci accepted a move that is not legal");
            assert!(unchanged, "C13 find_uci changed the position although it only looks a move up");
        }
        Err(MoveFromUciError::MoveIsNotValid(m)) => {
            cov!(true, "find_uci rejects a pseudo-legal move that leaves the king attacked");
            let k = move_key(m);
            assert!(!legal(&pos, k.0, k.1, k.2), "C13 find_uci rejected a legal move");
            assert!(unchanged, "C13 find_uci rejected a move but left the position changed");
        }
        Err(_) => {
            cov!(true, "find_uci reports an unknown move");
            assert!(unchanged, "C13 find_uci reported an unknown move but changed the position");
        }
    }
    core::mem::forget(r);
}

/// make_uci: Err => unchanged; Ok => the successor the rules define for the selected legal move.
pub fn c13_make(kinds: &[u8], turn: u8, optional: bool) {
    let (pos, mut bb) = any_pos(kinds, turn, optional);
    set_pos(&pos, false);
    let (tb, tl, _sel) = text_for(&bb);
    let s0 = snap(&bb);
    let r = bb.make_uci(as_str(&tb, tl));
    #[cfg(not(kani))]
    sym::note("board_after", crate::native_util::describe(&bb));
    match &r {
        Ok(()) => {
            cov!(true, "make_uci applies a move");
            // which move was applied is not returned; the successor must be the rules' successor of SOME
            // legal move: identify it by the query key (a forall over the key space for the solver)
            #[cfg(kani)]
            let q = unsafe { obs::Q_KEY };
            #[cfg(not(kani))]
            let q = _sel.unwrap_or((0, 0, 0));
            assert!(legal(&pos, q.0, q.1, q.2), "C13 make_uci applied a move that is not legal");
            let n = apply(&pos, q.0, q.1, q.2);
            let s = sym::sq();
            assert!(matches_ref(&bb, &n, s), "C13 make_uci did not reach the successor position the rules define");
        }
        Err(_) => {
            cov!(true, "make_uci rejects");
            assert!(same(&bb, &s0), "C13 make_uci returned an error but changed the position");
        }
    }
    core::mem::forget(r);
}

/// make_all_uci with two moves: Err (at index 0 or 1) => unchanged; Ok => both applied.
pub fn c13_all(kinds: &[u8], turn: u8, optional: bool) {
    let (pos, mut bb) = any_pos(kinds, turn, optional);
    set_pos(&pos, false);
    let s0 = snap(&bb);
    #[cfg(kani)]
    let moves: Vec<String> = {
        let (t1, l1, _) = text_for(&bb);
        let (t2, l2, _) = text_for(&bb);
        vec![as_str(&t1, l1).to_string(), as_str(&t2, l2).to_string()]
    };
    #[cfg(not(kani))]
    let mut sels: [Key; 2] = [(0, 0, 0); 2];
    #[cfg(not(kani))]
    let moves: Vec<String> = {
        // stream order under Kani: text1, text2, then (inside make_all_uci) selection 1, format, selection 2, format
        for _ in 0..2 { for _ in 0..5 { let _ = sym::u8(); } let _ = sym::bool(); }
        let (t1, l1, sel1) = selection_text(&bb);
        let first = as_str(&t1, l1).to_string();
        let mut second = "a1a1".to_string();
        if let Some(q) = sel1 {
            if legal(&pos, q.0, q.1, q.2) {
                let mut tmp = Bitboard { white: bb.white, black: bb.black, turn: bb.turn, en_passant_square_shift: bb.en_passant_square_shift, fullmove_clock: bb.fullmove_clock, halfmove_clock: bb.halfmove_clock };
                let (_, mv) = observe(&tmp, q, false);
                tmp.make(mv);
                let (t2, l2, sel2) = selection_text(&tmp);
                second = as_str(&t2, l2).to_string();
                sels = [q, sel2.unwrap_or((0, 0, 0))];
            }
        }
        vec![first, second]
    };
    let r = bb.make_all_uci(&moves);
    #[cfg(not(kani))]
    sym::note("board_after", crate::native_util::describe(&bb));
    match &r {
        Ok(()) => {
            cov!(true, "make_all_uci applies both moves");
            assert!(bb.turn == s0.turn && bb.fullmove_clock == s0.full + 1, "C13 make_all_uci returned Ok without applying both moves");
            #[cfg(kani)]
            let sels = unsafe { SEL };
            let (q1, q2) = (sels[0], sels[1]);
            assert!(legal(&pos, q1.0, q1.1, q1.2), "C13 make_all_uci applied a first move that is not legal");
            let n1 = apply(&pos, q1.0, q1.1, q1.2);
            assert!(legal(&n1, q2.0, q2.1, q2.2), "C13 make_all_uci applied a second move that is not legal");
            let n2 = apply(&n1, q2.0, q2.1, q2.2);
            let s = sym::sq();
            assert!(matches_ref(&bb, &n2, s), "C13 make_all_uci did not reach the position the rules define after both moves");
        }
        Err(_) => {
            cov!(bb.turn == s0.turn, "make_all_uci rejects");
            assert!(same(&bb, &s0), "C13 make_all_uci returned an error but did not restore the position before the call");
        }
    }
    core::mem::forget(r);
    core::mem::forget(moves);
}

/// uci_to_pgn on an illegal or unknown move: Err and the board is unchanged.  (Under Kani the success path
/// is cut by `cut_success_path`; natively a legal selected move simply ends the replay.)
pub fn c13_san(kinds: &[u8], turn: u8, optional: bool) {
    let (pos, mut bb) = any_pos(kinds, turn, optional);
    set_pos(&pos, true);
    let (tb, tl, _sel) = text_for(&bb);
    let s0 = snap(&bb);
    let r = bb.uci_to_pgn(as_str(&tb, tl));
    #[cfg(not(kani))]
    sym::note("board_after", crate::native_util::describe(&bb));
    match &r {
        Ok(_) => {
            #[cfg(not(kani))]
            {
                let q = _sel.unwrap_or((0, 0, 0));
                assert!(_sel.is_some() && legal(&pos, q.0, q.1, q.2), "C13 uci_to_pgn produced SAN for an illegal or unknown move");
            }
        }
        Err(MoveFromUciError::MoveIsNotValid(m)) => {
            cov!(true, "uci_to_pgn rejects an illegal move");
            let k = move_key(m);
            assert!(!legal(&pos, k.0, k.1, k.2), "C13 uci_to_pgn rejected a legal move as not valid");
            assert!(same(&bb, &s0), "C13 uci_to_pgn rejected an illegal move but left the position changed");
        }
        Err(_) => {
            cov!(true, "uci_to_pgn reports an unknown move");
            assert!(same(&bb, &s0), "C13 uci_to_pgn reported an unknown move but changed the position");
        }
    }
    core::mem::forget(r);
}
