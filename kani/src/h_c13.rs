//! C13 (partial, DESIGN.md C13): `find_uci`, `make_uci`, `make_all_uci`, `uci_to_pgn` on the position
//! families.  Under Kani the pseudo-legal list is abstracted to "any one of its elements, or none"
//! (`gen_any_one` replaces `Bitboard::generate_pseudo_legal_moves`, running the real generator under
//! the push observer) and `alloc::fmt::format` returns an arbitrary short string, so the text -> element
//! matching is nondeterministic: every behaviour of the real `find` is included.  Natively (replay) the
//! real functions run on the UCI text of the move the solver selected.

use crate::cov;
use crate::family::*;
use crate::refchess::*;
use crate::sym;
use inkayaku_board::{Bitboard, Move, MoveFromUciError};

/// number of `sym` draws of one `format_any` call (fixed, so the native replayer can skip them)
pub const FORMAT_DRAWS: usize = 6;

#[cfg(kani)]
pub static mut RESTRICT_ILLEGAL: bool = false;
#[cfg(kani)]
pub static mut CUR_POS: Option<Pos> = None;
/// keys selected by the successive `gen_any_one` calls of one harness run
#[cfg(kani)]
pub static mut SEL: [Key; 2] = [(0, 0, 0); 2];
#[cfg(kani)]
pub static mut SEL_N: usize = 0;

/// Stub target for `Bitboard::generate_pseudo_legal_moves`: the 1-element list holding any one move the
/// real generator emits for this position, or the empty list.
#[cfg(kani)]
pub fn gen_any_one(this: &Bitboard) -> Vec<Move> {
    let q = any_key();
    let (m, mv) = observe(this, q, false);
    if m == 1 {
        unsafe {
            if SEL_N < 2 { SEL[SEL_N] = q; }
            SEL_N += 1;
        }
        vec![mv]
    } else {
        Vec::new()
    }
}

/// Stub target for `Bitboard::is_current_in_check` in `c13_san` only: the first call `uci_to_pgn` makes after
/// its validity check has accepted the move.  Cutting the path there ends the (unclaimed, and for CBMC
/// unaffordable) SAN-building success path right after the check that guards it; the error paths - the
/// claim - do not call it.
#[cfg(kani)]
pub fn cut_success_path(_this: &Bitboard) -> bool {
    sym::assume(false);
    false
}

/// Stub target for `Move::to_uci_string` (which is one `format!` over three freshly allocated strings - the
/// part CBMC cannot afford): an arbitrary ASCII string of 4 or 5 bytes.
#[cfg(kani)]
pub fn uci_string_any(_mv: &inkayaku_board::Move) -> String {
    format_any_string()
}

/// Stub target for `alloc::fmt::format`: an arbitrary ASCII string of 4 or 5 bytes.
#[cfg(kani)]
pub fn format_any(_args: core::fmt::Arguments<'_>) -> String {
    format_any_string()
}

#[cfg(kani)]
fn format_any_string() -> String {
    let b: [u8; 5] = [sym::u8() & 127, sym::u8() & 127, sym::u8() & 127, sym::u8() & 127, sym::u8() & 127];
    let five = sym::bool();
    let v = if five { vec![b[0], b[1], b[2], b[3], b[4]] } else { vec![b[0], b[1], b[2], b[3]] };
    unsafe { String::from_utf8_unchecked(v) }
}

/// The move text.  Under Kani a fixed string: `Move::to_uci_string` is stubbed by an arbitrary string, so
/// whether the text "matches" the one list element is nondeterministic whatever the text is - a symbolic
/// text would add cost (trim, compare, copy) and no behaviour.  Natively: the UCI text of the move the
/// solver selected inside `gen_any_one` (or "a1a1", which no generator emits, if the generator does not
/// emit the selected key here).
fn text_for(bb: &Bitboard) -> ([u8; 5], usize, Option<Key>) {
    #[cfg(kani)]
    {
        let _ = bb;
        ([b'e', b'2', b'e', b'4', 0], 4, None)
    }
    #[cfg(not(kani))]
    {
        selection_text(bb)
    }
}

#[cfg(not(kani))]
fn selection_text(bb: &Bitboard) -> ([u8; 5], usize, Option<Key>) {
    // the draws of gen_any_one
    let q = any_key();
    let (m, _) = observe(bb, q, false);
    let text = if m == 1 { native::uci(q.0, q.1, q.2) } else { "a1a1".to_string() };
    if m == 1 {
        // the draws of the one format_any call made by `find`
        for _ in 0..5 { let _ = sym::u8(); }
        let _ = sym::bool();
    }
    sym::note("move_text", text.clone());
    let mut out = [0u8; 5];
    out[..text.len()].copy_from_slice(text.as_bytes());
    (out, text.len(), if m == 1 { Some(q) } else { None })
}

fn as_str(b: &[u8; 5], len: usize) -> &str {
    unsafe { std::str::from_utf8_unchecked(&b[..len]) }
}

fn set_pos(_pos: &Pos, _restrict: bool) {
    #[cfg(kani)]
    unsafe {
        CUR_POS = Some(*_pos);
        RESTRICT_ILLEGAL = _restrict;
        SEL_N = 0;
    }
}

/// find_uci: Ok or Err, the board is unchanged; Ok(m) => m is legal; Err(MoveIsNotValid(m)) => m is not.
pub fn c13_find(kinds: &[u8], turn: u8, optional: bool) {
    let (pos, mut bb) = any_pos(kinds, turn, optional);
    set_pos(&pos, false);
    let (tb, tl, _sel) = text_for(&bb);
    let s0 = snap(&bb);
    let r = bb.find_uci(as_str(&tb, tl));
    #[cfg(not(kani))]
    {
        sym::note("result", format!("{:?}", r.as_ref().map(|m| m.to_uci_string())));
        sym::note("board_after", crate::native_util::describe(&bb));
    }
    let unchanged = same(&bb, &s0);
    match &r {
        Ok(m) => {
            cov!(true, "find_uci accepts a move");
            let k = move_key(m);
            assert!(legal(&pos, k.0, k.1, k.2), "C13 find_uci accepted a move that is not legal");
            assert!(unchanged, "C13 find_uci changed the position although it only looks a move up");
        }
        Err(MoveFromUciError::MoveIsNotValid(m)) => {
            cov!(true, "find_uci rejects a pseudo-legal move that leaves the king attacked");
            let k = move_key(m);
            assert!(!legal(&pos, k.0, k.1, k.2), "C13 find_uci rejected a legal move");
            assert!(unchanged, "C13 find_uci rejected a move but left the position changed");
        }
        Err(_) => {
            cov!(true, "find_uci reports an unknown move");
            assert!(unchanged, "C13 find_uci reported an unknown move but changed the position");
        }
    }
    core::mem::forget(r);
}

/// make_uci: Err => unchanged; Ok => the successor the rules define for the selected legal move.
pub fn c13_make(kinds: &[u8], turn: u8, optional: bool) {
    let (pos, mut bb) = any_pos(kinds, turn, optional);
    set_pos(&pos, false);
    let (tb, tl, _sel) = text_for(&bb);
    let s0 = snap(&bb);
    let r = bb.make_uci(as_str(&tb, tl));
    #[cfg(not(kani))]
    sym::note("board_after", crate::native_util::describe(&bb));
    match &r {
        Ok(()) => {
            cov!(true, "make_uci applies a move");
            // which move was applied is not returned; the successor must be the rules' successor of SOME
            // legal move: identify it by the query key (a forall over the key space for the solver)
            #[cfg(kani)]
            let q = unsafe { obs::Q_KEY };
            #[cfg(not(kani))]
            let q = _sel.unwrap_or((0, 0, 0));
            assert!(legal(&pos, q.0, q.1, q.2), "C13 make_uci applied a move that is not legal");
            let n = apply(&pos, q.0, q.1, q.2);
            let s = sym::sq();
            assert!(matches_ref(&bb, &n, s), "C13 make_uci did not reach the successor position the rules define");
        }
        Err(_) => {
            cov!(true, "make_uci rejects");
            assert!(same(&bb, &s0), "C13 make_uci returned an error but changed the position");
        }
    }
    core::mem::forget(r);
}

#[cfg(kani)]
pub static mut FIND_CALLS: u32 = 0;
/// `c13_allw`: the second call may report MoveIsNotValid only where such a move certainly exists natively
/// (kings at distance <= 2: a king step next to the other king), so that a counterexample replays.
#[cfg(kani)]
pub static mut WITNESS_ONLY: bool = false;

#[cfg(kani)]
fn kings_close(bb: &Bitboard) -> bool {
    let a = bb.white.kings().trailing_zeros() as i32;
    let b = bb.black.kings().trailing_zeros() as i32;
    (a % 8 - b % 8).abs() <= 2 && (a / 8 - b / 8).abs() <= 2
}

/// Stub target for `Bitboard::find_uci` in `c13_all` only.  What `c13_find` proves about the real function -
/// it leaves the board unchanged and returns either a move of the pseudo-legal list or one of the two errors
/// - is used as its model here, so that the harness pays for `make_all_uci`'s own logic (apply, record, roll
/// back in reverse on any error) only.  First call: any emitted move may be found (legal or not: a superset)
/// or either error; second call: either error (with an arbitrary payload), so that the list is rejected at
/// index 0 or at index 1 - with one move to roll back - by either error kind.
#[cfg(kani)]
pub fn find_uci_model(this: &mut Bitboard, _uci: &str) -> Result<Move, MoveFromUciError> {
    let call = unsafe { FIND_CALLS };
    unsafe { FIND_CALLS += 1; }
    let which = sym::u8();
    if call == 0 {
        let q = any_key();
        let (m, mv) = observe(this, q, false);
        if m == 1 && which == 0 {
            Ok(mv)
        } else if m == 1 && which == 1 {
            Err(MoveFromUciError::MoveIsNotValid(mv))
        } else {
            Err(MoveFromUciError::MoveDoesNotExist(String::new()))
        }
    } else if which == 0 {
        if unsafe { WITNESS_ONLY } { sym::assume(kings_close(this)); }
        Err(MoveFromUciError::MoveIsNotValid(Move { bits: sym::u64(), mvvlva: 0 }))
    } else {
        Err(MoveFromUciError::MoveDoesNotExist(String::new()))
    }
}

/// make_all_uci is all-or-nothing: a list of two moves rejected at index 0 or at index 1 (after one move has
/// been applied), by either error kind, leaves the position as it was before the call.
pub fn c13_all(kinds: &[u8], turn: u8, optional: bool) {
    c13_all_impl(kinds, turn, optional, false)
}

/// Same with the witness-only model (a subset of `c13_all`'s behaviours whose counterexamples replay natively).
pub fn c13_allw(kinds: &[u8], turn: u8, optional: bool) {
    c13_all_impl(kinds, turn, optional, true)
}

fn c13_all_impl(kinds: &[u8], turn: u8, optional: bool, _witness_only: bool) {
    let (pos, mut bb) = any_pos(kinds, turn, optional);
    let _ = &pos;
    let s0 = snap(&bb);
    #[cfg(kani)]
    unsafe { FIND_CALLS = 0; WITNESS_ONLY = _witness_only; }
    #[cfg(kani)]
    let moves: [String; 2] = [String::new(), String::new()];
    #[cfg(not(kani))]
    let moves: [String; 2] = {
        // stream order under Kani: call 1: outcome selector, selection (3 draws); call 2: selector (+ payload)
        let which1 = sym::u8();
        let q = any_key();
        let (m, mv1) = observe(&bb, q, false);
        let t1 = if m == 1 && which1 <= 1 { native::uci(q.0, q.1, q.2) } else { "a1a1".to_string() };
        let mut t2 = "a1a1".to_string();
        if m == 1 && which1 == 0 {
            let mut tmp = Bitboard { white: bb.white, black: bb.black, turn: bb.turn, en_passant_square_shift: bb.en_passant_square_shift, fullmove_clock: bb.fullmove_clock, halfmove_clock: bb.halfmove_clock };
            tmp.make(mv1);
            if tmp.is_valid() {
                let which2 = sym::u8();
                if which2 == 0 {
                    // a pseudo-legal move of the successor that leaves the king attacked, if there is one
                    for cand in tmp.generate_pseudo_legal_moves() {
                        if !tmp.is_move_legal(cand) { t2 = cand.to_uci_string(); break; }
                    }
                }
            }
        }
        sym::note("move_list", format!("{} {}", t1, t2));
        [t1, t2]
    };
    let r = bb.make_all_uci(&moves);
    #[cfg(not(kani))]
    {
        sym::note("result", format!("{:?}", r.as_ref().map_err(|e| format!("{:?}", e).chars().take(40).collect::<String>())));
        sym::note("board_after", crate::native_util::describe(&bb));
    }
    match &r {
        Ok(()) => {
            // unreachable under the model (the second call always fails); natively a list of two legal moves
        }
        Err(MoveFromUciError::MoveIsNotValid(_)) => {
            cov!(true, "make_all_uci rejects a list because a move leaves the king attacked");
            assert!(same(&bb, &s0), "C13 make_all_uci rejected an illegal move but did not restore the position before the call");
        }
        Err(_) => {
            cov!(true, "make_all_uci rejects a list because a move does not exist");
            assert!(same(&bb, &s0), "C13 make_all_uci reported an unknown move but did not restore the position before the call");
        }
    }
    core::mem::forget(r);
    core::mem::forget(moves);
}

/// uci_to_pgn on an illegal or unknown move: Err and the board is unchanged.  (Under Kani the success path
/// is cut by `cut_success_path`; natively a legal selected move simply ends the replay.)
pub fn c13_san(kinds: &[u8], turn: u8, optional: bool) {
    let (pos, mut bb) = any_pos(kinds, turn, optional);
    set_pos(&pos, true);
    let (tb, tl, _sel) = text_for(&bb);
    let s0 = snap(&bb);
    let r = bb.uci_to_pgn(as_str(&tb, tl));
    #[cfg(not(kani))]
    sym::note("board_after", crate::native_util::describe(&bb));
    match &r {
        Ok(_) => {
            #[cfg(not(kani))]
            {
                let q = _sel.unwrap_or((0, 0, 0));
                assert!(_sel.is_some() && legal(&pos, q.0, q.1, q.2), "C13 uci_to_pgn produced SAN for an illegal or unknown move");
            }
        }
        Err(MoveFromUciError::MoveIsNotValid(m)) => {
            cov!(true, "uci_to_pgn rejects an illegal move");
            let k = move_key(m);
            assert!(!legal(&pos, k.0, k.1, k.2), "C13 uci_to_pgn rejected a legal move as not valid");
            assert!(same(&bb, &s0), "C13 uci_to_pgn rejected an illegal move but left the position changed");
        }
        Err(_) => {
            cov!(true, "uci_to_pgn reports an unknown move");
            assert!(same(&bb, &s0), "C13 uci_to_pgn reported an unknown move but changed the position");
        }
    }
    core::mem::forget(r);
}

