//! C15 (partial): UCI move text.  `UciMove::from_str` on every ASCII string of <= 6 bytes,
//! `Square::from_chars` on every pair of chars, the square/piece text tables, and the parse direction of
//! the round trip on the text parts `Display` concatenates.

use crate::cov;
use crate::sym;
use inkayaku_core::constants::{Piece, Square};
use inkayaku_uci::UciMove;
use std::str::FromStr;

fn is_file(b: u8) -> bool { b >= b'a' && b <= b'h' }
fn is_rank(b: u8) -> bool { b >= b'1' && b <= b'8' }
fn sq_index(f: u8, r: u8) -> u32 { ((b'8' - r) as u32) * 8 + (f - b'a') as u32 }
fn promo_index(b: u8) -> u8 {
    match b { b'n' | b'N' => 2, b'b' | b'B' => 3, b'r' | b'R' => 4, b'q' | b'Q' => 5, b'k' | b'K' => 6, b'p' | b'P' => 1, _ => 0 }
}

/// C15.1: every string of <= 6 ASCII bytes: no panic/overflow; Ok => the text starts with two squares and
/// the result carries exactly them (and the piece the fifth byte spells); a well-formed UCI move text
/// `[a-h][1-8][a-h][1-8][qrbn]?` => Ok; text that does not start with two squares, or whose fifth byte is
/// no piece letter => Err.
pub fn c15_move_total() {
    let bytes: [u8; 6] = [sym::u8(), sym::u8(), sym::u8(), sym::u8(), sym::u8(), sym::u8()];
    let len = sym::usize();
    sym::assume(len <= 6);
    let mut i = 0;
    while i < 6 {
        sym::assume(bytes[i] < 128);
        i += 1;
    }
    let s = unsafe { std::str::from_utf8_unchecked(&bytes[..len]) };
    #[cfg(not(kani))]
    sym::note("text", format!("{:?}", s));
    let squares_ok = len >= 4 && is_file(bytes[0]) && is_rank(bytes[1]) && is_file(bytes[2]) && is_rank(bytes[3]);
    let standard = squares_ok && (len == 4 || (len == 5 && matches!(bytes[4], b'q' | b'r' | b'b' | b'n')));
    cov!(standard && len == 5, "standard promotion text");
    cov!(len >= 1 && bytes[0] < b'a', "first byte sorts below 'a'");
    cov!(squares_ok && len >= 5 && promo_index(bytes[4]) == 0, "fifth byte is no piece letter");
    let r = UciMove::from_str(s);
    match &r {
        Ok(mv) => {
            assert!(squares_ok, "C15.1 text that does not start with two squares was accepted");
            assert!(mv.source.shift == sq_index(bytes[0], bytes[1]) && mv.target.shift == sq_index(bytes[2], bytes[3]), "C15.1 parsed squares differ from the text");
            if len == 4 {
                assert!(mv.promote_to.is_none(), "C15.1 promotion piece invented");
            } else {
                assert!(mv.promote_to.is_some() && mv.promote_to.unwrap().index == promo_index(bytes[4]), "C15.1 parsed promotion piece differs from the text");
            }
        }
        Err(_) => {
            assert!(!standard, "C15.1 well-formed UCI move text was rejected");
        }
    }
    core::mem::forget(r);
}

/// C15.2: `Square::from_chars` is total on all of Unicode and accepts exactly [a-h][1-8].
pub fn c15_square() {
    let f = sym::char();
    let r = sym::char();
    #[cfg(not(kani))]
    sym::note("chars", format!("{:?} {:?}", f, r));
    cov!((f as u32) < ('a' as u32), "file char below 'a'");
    cov!((f as u32) > 0xFFFF, "file char outside the BMP");
    let got = Square::from_chars(f, r);
    let ok = f >= 'a' && f <= 'h' && r >= '1' && r <= '8';
    assert!(got.is_some() == ok, "C15.2 Square::from_chars accepts/rejects the wrong characters");
    if let Some(sq) = got {
        assert!(sq.shift == ('8' as u32 - r as u32) * 8 + (f as u32 - 'a' as u32), "C15.2 Square::from_chars returns the wrong square");
    }
}

/// C15.3: the text tables behind every printed move: square i prints as the two bytes file/rank of i and
/// carries the matching index, mask, file and rank; piece letters map back to their piece.
pub fn c15_square_text() {
    let i = sym::usize();
    sym::assume(i < 64);
    let sq = Square::from_index(i);
    assert!(sq.is_some(), "C15.3 Square::from_index rejects a board square");
    let sq = sq.unwrap();
    let fen = sq.fen.as_bytes();
    assert!(fen.len() == 2 && fen[0] == b'a' + (i % 8) as u8 && fen[1] == b'8' - (i / 8) as u8, "C15.3 square text differs from its index");
    assert!(sq.shift == i as u32 && sq.mask == 1u64 << i && sq.file.index as usize == i % 8 && sq.rank.index as usize == i / 8, "C15.3 square struct fields inconsistent with its index");
    assert!(Square::VALUES[i].shift == i as u32 && Square::VALUES[i].fen.as_bytes()[0] == fen[0] && Square::VALUES[i].fen.as_bytes()[1] == fen[1], "C15.3 Square::VALUES out of order");
    let p = sym::usize();
    sym::assume(p >= 1 && p <= 6);
    let piece = Piece::from_index(p).unwrap();
    assert!(piece.index as usize == p && Piece::from_char(piece.fen).map(|q| q.index) == Some(piece.index), "C15.3 piece letter does not map back to its piece");
    assert!(Piece::VALUES[p - 1].index as usize == p, "C15.3 Piece::VALUES out of order");
}

/// C15.4: parse direction of the move-text round trip: for every move (source, target, promotion in
/// {none,n,b,r,q}) the concatenation of the parts that `Display for UciMove` writes - source.fen,
/// target.fen, promotion letter - parses back to exactly that move.  (That `write!` concatenates its
/// three arguments is std's formatting machinery and is trusted; it cannot be executed by CBMC.)
pub fn c15_roundtrip() {
    let a = sym::usize();
    let b = sym::usize();
    sym::assume(a < 64 && b < 64);
    let p = sym::usize();
    sym::assume(p == 0 || (p >= 2 && p <= 5));
    let mv = UciMove { source: Square::from_index(a).unwrap(), target: Square::from_index(b).unwrap(), promote_to: Piece::from_index(p) };
    let mut buf = [0u8; 5];
    let sa = mv.source.fen.as_bytes();
    let sb = mv.target.fen.as_bytes();
    sym::assume(sa.len() == 2 && sb.len() == 2); // established by c15_square_text
    buf[0] = sa[0];
    buf[1] = sa[1];
    buf[2] = sb[0];
    buf[3] = sb[1];
    let mut len = 4;
    if let Some(pc) = mv.promote_to {
        sym::assume((pc.fen as u32) < 128);
        buf[4] = pc.fen as u8;
        len = 5;
    }
    let text = unsafe { std::str::from_utf8_unchecked(&buf[..len]) };
    #[cfg(not(kani))]
    sym::note("text", text.to_string());
    cov!(len == 5, "promotion");
    let back = UciMove::from_str(text);
    match &back {
        Ok(m2) => {
            assert!(m2.source.shift == a as u32 && m2.target.shift == b as u32, "C15.4 printed move parses back to other squares");
            assert!(m2.promote_to.map(|q| q.index as usize).unwrap_or(0) == p, "C15.4 printed move parses back to another promotion piece");
        }
        Err(_) => assert!(false, "C15.4 printed move does not parse back"),
    }
    core::mem::forget(back);
}

/// C13/C01 text rendering: `Move::to_uci_string` of a move with symbolic source, target and promotion piece is
/// the text `<from><to>[nbrq]` of exactly those - the correspondence between the key (from, to, promotion)
/// used by the position-family harnesses and the UCI text that `find_uci` compares.
pub fn c13_uci_text() {
    let from = sym::sq();
    let to = sym::sq();
    let promo = sym::u8();
    sym::assume(promo == 0 || (promo >= 2 && promo <= 5));
    let mut mv = inkayaku_board::Move { bits: 0, mvvlva: 0 };
    mv.set_source_square(from as u32);
    mv.set_target_square(to as u32);
    mv.set_promotion_piece(promo as u64);
    let text = mv.to_uci_string();
    #[cfg(not(kani))]
    sym::note("text", text.clone());
    let b = text.as_bytes();
    let want_len = if promo == 0 { 4 } else { 5 };
    assert!(b.len() == want_len, "C13 to_uci_string has the wrong length");
    assert!(b[0] == b'a' + from % 8 && b[1] == b'8' - from / 8 && b[2] == b'a' + to % 8 && b[3] == b'8' - to / 8, "C13 to_uci_string does not spell source and target square");
    if promo != 0 {
        let letter = match promo { 2 => b'n', 3 => b'b', 4 => b'r', _ => b'q' };
        assert!(b[4] == letter, "C13 to_uci_string does not spell the promotion piece");
    }
    core::mem::forget(text);
}

/// Parts of the text: `square_to_string` / `piece_to_string` (cheap lemma, no formatting machinery).
pub fn c13_text_parts() {
    let sq = sym::sq();
    let s = inkayaku_board::square_to_string(sq as u32);
    let b = s.as_bytes();
    assert!(b.len() == 2 && b[0] == b'a' + sq % 8 && b[1] == b'8' - sq / 8, "C13 square_to_string does not spell the square");
    core::mem::forget(s);
    let p = sym::u8();
    sym::assume(p <= 6);
    let t = inkayaku_board::piece_to_string(p as u64);
    let tb = t.as_bytes();
    let want: &[u8] = match p { 0 => b"", 1 => b"p", 2 => b"n", 3 => b"b", 4 => b"r", 5 => b"q", _ => b"k" };
    assert!(tb.len() == want.len() && (want.is_empty() || tb[0] == want[0]), "C13 piece_to_string does not spell the piece");
    core::mem::forget(t);
}
