//! Native registry: harness name (`<group>::<cell>`, the Kani path without the `proofs::` prefix) -> body.
//! Generated from the same cell lists as proofs.rs.

#![allow(unused_macros)]

use crate::refchess::{B, N, P, Q, R};
use crate::{deep2_cells, deep3_cells, exact_cells, quick_cells, squares64, tiny_cells};
use std::cell::{Cell, RefCell};

thread_local! {
    static WANTED: RefCell<Option<String>> = RefCell::new(None);
    static DONE: Cell<bool> = Cell::new(false);
    static NAMES: RefCell<Vec<&'static str>> = RefCell::new(Vec::new());
}

pub fn maybe(name: &'static str, f: impl Fn()) {
    NAMES.with(|n| n.borrow_mut().push(name));
    let hit = WANTED.with(|w| w.borrow().as_deref() == Some(name));
    if hit {
        DONE.with(|d| d.set(true));
        f();
    }
}

macro_rules! rfam {
    ($group:ident, $cell:ident, $body:path, $kinds:expr, $turn:expr, $opt:expr) => {
        maybe(concat!(stringify!($group), "::", stringify!($cell)), || $body(&$kinds, $turn, $opt));
    };
}
macro_rules! rsq {
    ($group:ident, $cell:ident, $body:path, $sq:expr) => {
        maybe(concat!(stringify!($group), "::", stringify!($cell)), || $body($sq));
    };
}
macro_rules! family_group {
    ($group:ident, $body:path) => {
        quick_cells!(rfam, $group, $body);
        deep2_cells!(rfam, $group, $body);
        deep3_cells!(rfam, $group, $body);
        tiny_cells!(rfam, $group, $body);
        exact_cells!(rfam, $group, $body);
    };
}

fn all() {
    family_group!(c01_gen, crate::h_board::c01_gen);
    family_group!(c01_legal, crate::h_board::c01_legal);
    family_group!(c01_nq, crate::h_board::c01_nq);
    family_group!(c01_gen_after, crate::h_board::c01_gen_after);
    family_group!(c01_inv, crate::h_board::c01_inv);
    family_group!(c02_make, crate::h_board::c02_make);
    family_group!(c03_undo, crate::h_board::c03_undo);
    family_group!(c03_undo_hash, crate::h_board::c03_undo_hash);
    family_group!(c03_line2, crate::h_board::c03_line2);
    family_group!(c05_valid, crate::h_board::c05_valid);
    family_group!(c06_incr, crate::h_board::c06_incr);
    family_group!(c13_find, crate::h_c13::c13_find);
    family_group!(c13_make, crate::h_c13::c13_make);
    family_group!(c13_all, crate::h_c13::c13_all);
    family_group!(c13_allw, crate::h_c13::c13_allw);
    family_group!(c13_san, crate::h_c13::c13_san);
    squares64!(rsq, c04_rook, crate::h_tables::c04_rook);
    squares64!(rsq, c04_bishop, crate::h_tables::c04_bishop);
    maybe("c04_leapers::all", || crate::h_tables::c04_leapers());
    maybe("c05_full::check", || crate::h_check::c05_check_full(2));
    maybe("c05_full::check_w", || crate::h_check::c05_check_full(0));
    maybe("c05_full::check_b", || crate::h_check::c05_check_full(1));
    maybe("c05_full::terminal", || crate::h_engine::c11_terminal());
    maybe("c06_occ::w_p", || crate::h_zobrist::c06_occ(P, 0));
    maybe("c06_occ::b_p", || crate::h_zobrist::c06_occ(P, 1));
    maybe("c06_occ::w_n", || crate::h_zobrist::c06_occ(N, 0));
    maybe("c06_occ::b_n", || crate::h_zobrist::c06_occ(N, 1));
    maybe("c06_occ::w_b", || crate::h_zobrist::c06_occ(B, 0));
    maybe("c06_occ::b_b", || crate::h_zobrist::c06_occ(B, 1));
    maybe("c06_occ::w_r", || crate::h_zobrist::c06_occ(R, 0));
    maybe("c06_occ::b_r", || crate::h_zobrist::c06_occ(R, 1));
    maybe("c06_occ::w_q", || crate::h_zobrist::c06_occ(Q, 0));
    maybe("c06_occ::b_q", || crate::h_zobrist::c06_occ(Q, 1));
    maybe("c06_lemma::zero_rows", || crate::h_zobrist::c06_zero_rows());
    maybe("c06_lemma::linear_p", || crate::h_zobrist::c06_linear(P, 1));
    maybe("c06_lemma::linear3_p", || crate::h_zobrist::c06_linear(P, 2));
    maybe("c06_lemma::linear_n", || crate::h_zobrist::c06_linear(N, 1));
    maybe("c06_lemma::linear3_n", || crate::h_zobrist::c06_linear(N, 2));
    maybe("c06_lemma::linear_b", || crate::h_zobrist::c06_linear(B, 1));
    maybe("c06_lemma::linear3_b", || crate::h_zobrist::c06_linear(B, 2));
    maybe("c06_lemma::linear_r", || crate::h_zobrist::c06_linear(R, 1));
    maybe("c06_lemma::linear3_r", || crate::h_zobrist::c06_linear(R, 2));
    maybe("c06_lemma::linear_q", || crate::h_zobrist::c06_linear(Q, 1));
    maybe("c06_lemma::linear3_q", || crate::h_zobrist::c06_linear(Q, 2));
    maybe("c06_lemma::fields", || crate::h_zobrist::c06_fields(false));
    maybe("c06_lemma::fields2", || crate::h_zobrist::c06_fields(true));
    maybe("c06_lemma::separate_piece", || crate::h_zobrist::c06_separate_piece());
    maybe("c06_lemma::separate_king", || crate::h_zobrist::c06_separate_king());
    maybe("c06_lemma::separate_flags", || crate::h_zobrist::c06_separate_flags());
    maybe("c10::rep_b0_w12", || crate::h_engine::c10_rep::<12>(0, 4095));
    maybe("c10::rep_b1_w12", || crate::h_engine::c10_rep::<12>(1, 4095));
    maybe("c10::rep_b100_w40", || crate::h_engine::c10_rep::<40>(100, 40));
    maybe("c10::rep_b4959_w40", || crate::h_engine::c10_rep::<40>(4959, 40));
    maybe("c10::rep_b100_w120", || crate::h_engine::c10_rep::<120>(100, 120));
    maybe("c10::rep_b4879_w120", || crate::h_engine::c10_rep::<120>(4879, 120));
    maybe("c10::index_inrange", || crate::h_engine::c10_index(2500));
    maybe("c10::index_all", || crate::h_engine::c10_index(u32::MAX));
    maybe("c10::fifty", || crate::h_engine::c10_fifty());
    maybe("c11::tables", || crate::h_engine::c11_tables());
    maybe("c11::stage", || crate::h_engine::c11_stage());
    maybe("c11::material", || crate::h_engine::c11_material());
    maybe("c11::eval1", || crate::h_engine::c11_eval(1, 0b111110));
    maybe("c11::eval1_pnb", || crate::h_engine::c11_eval(1, 0b001110));
    maybe("c11::eval1_rq", || crate::h_engine::c11_eval(1, 0b110000));
    maybe("c11::eval2_p", || crate::h_engine::c11_eval(2, 0b000010));
    maybe("c11::eval2_n", || crate::h_engine::c11_eval(2, 0b000100));
    maybe("c11::eval2_b", || crate::h_engine::c11_eval(2, 0b001000));
    maybe("c11::eval2_r", || crate::h_engine::c11_eval(2, 0b010000));
    maybe("c11::eval2_q", || crate::h_engine::c11_eval(2, 0b100000));
    maybe("c11::eval3_p", || crate::h_engine::c11_eval(3, 0b000010));
    maybe("c11::factor", || crate::h_engine::c11_factor());
    maybe("c11::terminal", || crate::h_engine::c11_terminal());
    maybe("c11::mate_distance", || crate::h_engine::c11_mate_distance());
    maybe("c15::move_total", || crate::h_uci::c15_move_total());
    maybe("c15::square", || crate::h_uci::c15_square());
    maybe("c15::square_text", || crate::h_uci::c15_square_text());
    maybe("c15::roundtrip", || crate::h_uci::c15_roundtrip());
    maybe("c15::uci_text", || crate::h_uci::c13_uci_text());
    maybe("c15::text_parts", || crate::h_uci::c13_text_parts());
    maybe("c15::go_tokens", || crate::h_cmd::c15_go_tokens());
    maybe("c15::numbers", || crate::h_cmd::c15_numbers());
    maybe("c15::searchmoves_0", || crate::h_cmd::c15_searchmoves(0));
    maybe("c15::searchmoves_1", || crate::h_cmd::c15_searchmoves(1));
    maybe("c15::searchmoves_2", || crate::h_cmd::c15_searchmoves(2));
    maybe("c15::searchmoves_3", || crate::h_cmd::c15_searchmoves(3));
    maybe("c15::searchmoves_4", || crate::h_cmd::c15_searchmoves(4));
    maybe("c15::searchmoves_5", || crate::h_cmd::c15_searchmoves(5));
    maybe("c15::searchmoves_6", || crate::h_cmd::c15_searchmoves(6));
    maybe("c15::searchmoves_7", || crate::h_cmd::c15_searchmoves(7));
    maybe("c15::searchmoves_8", || crate::h_cmd::c15_searchmoves(8));
    maybe("c15::searchmoves_9", || crate::h_cmd::c15_searchmoves(9));
    maybe("c15::searchmoves_10", || crate::h_cmd::c15_searchmoves(10));
    maybe("c15::searchmoves_11", || crate::h_cmd::c15_searchmoves(11));
    maybe("c15::tokens", || crate::h_cmd::c15_tokens());
}

/// Runs the named harness body (panics propagate).  Returns false if no such harness exists.
pub fn run(name: &str) -> bool {
    WANTED.with(|w| *w.borrow_mut() = Some(name.to_string()));
    DONE.with(|d| d.set(false));
    NAMES.with(|n| n.borrow_mut().clear());
    all();
    DONE.with(|d| d.get())
}

pub fn names() -> Vec<&'static str> {
    WANTED.with(|w| *w.borrow_mut() = None);
    NAMES.with(|n| n.borrow_mut().clear());
    all();
    NAMES.with(|n| n.borrow().clone())
}
