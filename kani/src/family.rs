//! Symbolic position families F(T, K) (DESIGN.md 1.4), the `Vec::push` observer (1.5.1) and the
//! lookup model (1.5.2).

use crate::refchess::*;
use crate::sym;
use inkayaku_board::verif;
use inkayaku_board::{Bitboard, Move, PlayerState};

pub type Key = (u8, u8, u8);

// ---------------------------------------------------------------------------------------------
// lookup model: what C04 proves the magic lookup to be
// ---------------------------------------------------------------------------------------------

pub fn ray(square: u32, occ: u64, df: i32, dr: i32) -> u64 {
    let mut f = (square % 8) as i32 + df;
    let mut r = (square / 8) as i32 + dr;
    let mut res = 0u64;
    let mut step = 0;
    while step < 7 && f >= 0 && f < 8 && r >= 0 && r < 8 {
        let m = 1u64 << (r * 8 + f);
        res |= m;
        if occ & m != 0 { break; }
        f += df;
        r += dr;
        step += 1;
    }
    res
}
pub fn rook_ref(square: u32, occ: u64) -> u64 {
    ray(square, occ, 1, 0) | ray(square, occ, -1, 0) | ray(square, occ, 0, 1) | ray(square, occ, 0, -1)
}
pub fn bishop_ref(square: u32, occ: u64) -> u64 {
    ray(square, occ, 1, 1) | ray(square, occ, -1, 1) | ray(square, occ, 1, -1) | ray(square, occ, -1, -1)
}

/// Stub target for `<[MagicConfiguration; 64] as UnsafeMagicsExt>::get_attacks` in the position-family
/// harnesses.  C04 proves, per square and for all 2^64 occupancies, that the real lookup equals this.
pub fn magics_model(this: &verif::Magics, square: u32, occ: u64) -> u64 {
    if verif::is_rook_magics(this) { rook_ref(square, occ) } else { bishop_ref(square, occ) }
}

// ---------------------------------------------------------------------------------------------
// observer for Vec::push
// ---------------------------------------------------------------------------------------------

pub fn move_key(mv: &Move) -> Key {
    (mv.get_source_square() as u8, mv.get_target_square() as u8, mv.get_promotion_piece() as u8)
}

#[cfg(kani)]
pub mod obs {
    use super::*;
    pub static mut OBSERVING: bool = false;
    pub static mut Q_KEY: Key = (0, 0, 0);
    pub static mut Q_MATCHES: u32 = 0;
    pub static mut Q_TOTAL: u32 = 0;
    pub static mut Q_LAST: Move = Move { bits: 0, mvvlva: 0 };

    /// Replaces `Vec::push` (for every `Vec` in the harness).  While a generator call is being observed the
    /// pushed `Move` is compared with the symbolic query key and counted, nothing is stored; outside of an
    /// observation the element is appended for real (through `insert`, which is not stubbed).
    pub fn push_observer<T, A: std::alloc::Allocator>(v: &mut Vec<T, A>, value: T) {
        if unsafe { OBSERVING } {
            assert!(core::mem::size_of::<T>() == core::mem::size_of::<Move>());
            let mv: Move = unsafe { core::mem::transmute_copy(&value) };
            core::mem::forget(value);
            unsafe {
                Q_TOTAL += 1;
                if move_key(&mv) == Q_KEY {
                    Q_MATCHES += 1;
                    Q_LAST = mv;
                }
            }
        } else {
            let n = v.len();
            v.insert(n, value);
        }
    }
}

/// Runs the real generator once and reports (number of emitted moves with key `q`, one such move).
/// Under Kani through the push observer, natively by scanning the real buffer.
pub fn observe(bb: &Bitboard, q: Key, non_quiescent_only: bool) -> (u32, Move) {
    let mut buf: Vec<Move> = Vec::new();
    #[cfg(kani)]
    {
        unsafe {
            obs::Q_KEY = q;
            obs::Q_MATCHES = 0;
            obs::Q_TOTAL = 0;
            obs::OBSERVING = true;
        }
        if non_quiescent_only { bb.generate_pseudo_legal_non_quiescent_moves_with_buffer(&mut buf); } else { bb.generate_pseudo_legal_moves_with_buffer(&mut buf); }
        unsafe {
            obs::OBSERVING = false;
            (obs::Q_MATCHES, obs::Q_LAST)
        }
    }
    #[cfg(not(kani))]
    {
        if non_quiescent_only { bb.generate_pseudo_legal_non_quiescent_moves_with_buffer(&mut buf); } else { bb.generate_pseudo_legal_moves_with_buffer(&mut buf); }
        let mut n = 0;
        let mut last = Move { bits: 0, mvvlva: 0 };
        for mv in &buf {
            if move_key(mv) == q { n += 1; last = *mv; }
        }
        (n, last)
    }
}

/// A symbolic query key (from, to, promotion in {none, N, B, R, Q}).
pub fn any_key() -> Key {
    let f = sym::sq();
    let t = sym::sq();
    let p = sym::u8();
    sym::assume(p == 0 || (p >= N && p <= Q));
    #[cfg(not(kani))]
    sym::note("query_move_uci", native::uci(f, t, p));
    (f, t, p)
}

// ---------------------------------------------------------------------------------------------
// position family
// ---------------------------------------------------------------------------------------------

pub fn build_bitboard(pos: &Pos) -> Bitboard {
    let mut w = [0u64; 7];
    let mut b = [0u64; 7];
    let mut i = 0usize;
    while i < 64 {
        let p = pos.sq[i];
        if p != EMPTY {
            if color(p) == 0 { w[kind(p) as usize] |= 1u64 << i; } else { b[kind(p) as usize] |= 1u64 << i; }
        }
        i += 1;
    }
    Bitboard {
        white: verif::player_state(w, pos.wq, pos.wk),
        black: verif::player_state(b, pos.bq, pos.bk),
        turn: pos.turn as u32,
        en_passant_square_shift: pos.ep as u32,
        fullmove_clock: pos.full,
        halfmove_clock: pos.half,
    }
}

/// F(T, K): the two kings on any two distinct squares plus, for each entry of `kinds`, a piece of that
/// kind (optional and of either colour if `optional`; present with colours alternating white/black otherwise), on any free square (pawns not on ranks 1/8); side
/// to move `turn` (concrete); any subset of castling rights consistent with king/rook home squares;
/// e.p. square none or any square consistent with a just-made double push; half-move clock 0..4095;
/// full-move number 1..99_999; side not to move not in check.
pub fn any_pos(kinds: &[u8], turn: u8, optional: bool) -> (Pos, Bitboard) {
    let mut sq = [EMPTY; 64];
    let mut w = [0u64; 7];
    let mut b = [0u64; 7];
    let wk = sym::sq();
    let bk = sym::sq();
    sym::assume(wk != bk);
    sq[wk as usize] = mk(K, 0);
    sq[bk as usize] = mk(K, 1);
    w[K as usize] = 1u64 << wk;
    b[K as usize] = 1u64 << bk;
    let mut i = 0;
    while i < kinds.len() {
        let k = kinds[i];
        let present: bool = if optional { sym::bool() } else { true };
        if present {
            let s = sym::sq();
            sym::assume(sq[s as usize] == EMPTY);
            // optional cells: either colour; exact cells: colours alternate white/black in list order
            let c = if optional { sym::u8() } else { (i % 2) as u8 };
            sym::assume(c < 2);
            if k == P { sym::assume(s >= 8 && s < 56); }
            sq[s as usize] = mk(k, c);
            if c == 0 { w[k as usize] |= 1u64 << s; } else { b[k as usize] |= 1u64 << s; }
        }
        i += 1;
    }
    let has_rook = contains(kinds, R);
    let has_pawn = contains(kinds, P);
    let (wkc, wqc, bkc, bqc): (bool, bool, bool, bool) = if has_rook { (sym::bool(), sym::bool(), sym::bool(), sym::bool()) } else { (false, false, false, false) };
    sym::assume(!wkc || (sq[60] == mk(K, 0) && sq[63] == mk(R, 0)));
    sym::assume(!wqc || (sq[60] == mk(K, 0) && sq[56] == mk(R, 0)));
    sym::assume(!bkc || (sq[4] == mk(K, 1) && sq[7] == mk(R, 1)));
    sym::assume(!bqc || (sq[4] == mk(K, 1) && sq[0] == mk(R, 1)));
    let ep: u8 = if has_pawn { sym::u8() } else { 0 };
    if ep != 0 {
        if turn == 0 {
            sym::assume(ep >= 16 && ep < 24);
            sym::assume(sq[ep as usize] == EMPTY && sq[(ep - 8) as usize] == EMPTY && sq[(ep + 8) as usize] == mk(P, 1));
        } else {
            sym::assume(ep >= 40 && ep < 48);
            sym::assume(sq[ep as usize] == EMPTY && sq[(ep + 8) as usize] == EMPTY && sq[(ep - 8) as usize] == mk(P, 0));
        }
    }
    let half = sym::u32();
    sym::assume(half < 4096);
    let full = sym::u32();
    sym::assume(full >= 1 && full < 100000);
    let pos = Pos { sq, kings: [wk, bk], turn, wk: wkc, wq: wqc, bk: bkc, bq: bqc, ep, half, full };
    sym::assume(!attacked(&pos, if turn == 0 { bk } else { wk }, turn));
    let bb = Bitboard {
        white: verif::player_state(w, wqc, wkc),
        black: verif::player_state(b, bqc, bkc),
        turn: turn as u32,
        en_passant_square_shift: ep as u32,
        fullmove_clock: full,
        halfmove_clock: half,
    };
    #[cfg(not(kani))]
    sym::note("position_fen", native::to_fen(&pos));
    (pos, bb)
}

pub fn contains(kinds: &[u8], k: u8) -> bool {
    let mut i = 0;
    while i < kinds.len() {
        if kinds[i] == k { return true; }
        i += 1;
    }
    false
}

/// Position, a symbolic query key, and the move the generator emitted for it (assumed: exactly one).
pub fn observed(kinds: &[u8], turn: u8, optional: bool) -> (Pos, Bitboard, Key, Move) {
    let (pos, bb) = any_pos(kinds, turn, optional);
    let q = any_key();
    let (m, mv) = observe(&bb, q, false);
    sym::assume(m == 1);
    (pos, bb, q, mv)
}

// ---------------------------------------------------------------------------------------------
// snapshots and comparisons
// ---------------------------------------------------------------------------------------------

pub fn ps_eq(a: &PlayerState, b: &PlayerState) -> bool {
    a.occupancy(1) == b.occupancy(1) && a.occupancy(2) == b.occupancy(2) && a.occupancy(3) == b.occupancy(3)
        && a.occupancy(4) == b.occupancy(4) && a.occupancy(5) == b.occupancy(5) && a.occupancy(6) == b.occupancy(6)
        && a.king_side_castle == b.king_side_castle && a.queen_side_castle == b.queen_side_castle
}

#[derive(Clone, Copy)]
pub struct Snap {
    pub white: PlayerState,
    pub black: PlayerState,
    pub turn: u32,
    pub ep: u32,
    pub full: u32,
    pub half: u32,
}

pub fn snap(bb: &Bitboard) -> Snap {
    Snap { white: bb.white, black: bb.black, turn: bb.turn, ep: bb.en_passant_square_shift, full: bb.fullmove_clock, half: bb.halfmove_clock }
}

/// Everything except the half-move clock.
pub fn same_but_half(bb: &Bitboard, s: &Snap) -> bool {
    ps_eq(&bb.white, &s.white) && ps_eq(&bb.black, &s.black) && bb.turn == s.turn && bb.en_passant_square_shift == s.ep && bb.fullmove_clock == s.full
}

pub fn same(bb: &Bitboard, s: &Snap) -> bool {
    same_but_half(bb, s) && bb.halfmove_clock == s.half
}

pub fn piece_at(bb: &Bitboard, s: u8) -> u8 {
    let m = 1u64 << s;
    let mut k = 1u64;
    while k <= 6 {
        if bb.white.occupancy(k) & m != 0 { return mk(k as u8, 0); }
        if bb.black.occupancy(k) & m != 0 { return mk(k as u8, 1); }
        k += 1;
    }
    EMPTY
}

/// Number of piece bitboards (of the 12) that have square `s` set: must be <= 1 on a sane board.
pub fn layers_at(bb: &Bitboard, s: u8) -> u32 {
    let m = 1u64 << s;
    let mut n = 0;
    let mut k = 1u64;
    while k <= 6 {
        if bb.white.occupancy(k) & m != 0 { n += 1; }
        if bb.black.occupancy(k) & m != 0 { n += 1; }
        k += 1;
    }
    n
}

/// Does the bitboard equal the reference position in every FEN field?  Placement is compared at one
/// symbolic square `s` (a forall over s for the solver).
pub fn matches_ref(bb: &Bitboard, n: &Pos, s: u8) -> bool {
    piece_at(bb, s) == n.sq[s as usize] && layers_at(bb, s) <= 1
        && bb.turn == n.turn as u32
        && bb.en_passant_square_shift == n.ep as u32
        && bb.halfmove_clock == n.half
        && bb.fullmove_clock == n.full
        && bb.white.king_side_castle == n.wk && bb.white.queen_side_castle == n.wq
        && bb.black.king_side_castle == n.bk && bb.black.queen_side_castle == n.bq
}
