//! Harness bodies on the position families: C01 (generation), C02 (make), C03 (unmake), C05.2 (validity
//! after a move), C06.1 (incremental hash).  One property's assertions per body (DESIGN.md 1.4).
//! Every body works under Kani (symbolic) and natively (replay of a recorded counterexample).

use crate::cov;
use crate::family::*;
use crate::refchess::*;
use crate::sym;
use inkayaku_board::Bitboard;

fn count(kinds: &[u8], k: u8) -> usize {
    let mut n = 0;
    let mut i = 0;
    while i < kinds.len() {
        if kinds[i] == k { n += 1; }
        i += 1;
    }
    n
}

/// Reachability witnesses shared by the family harnesses.  Each is trivially true in cells where the
/// pattern cannot exist (e.g. no e.p. capture without two pawns), so the driver can simply require every
/// cover of every harness to be SATISFIED.
/// Can the side to move own a rook in this cell?  (optional cells: any colour; exact cells: colours
/// alternate white/black in list order)
fn mover_can_have_rook(kinds: &[u8], turn: u8, optional: bool) -> bool {
    let mut i = 0;
    while i < kinds.len() {
        if kinds[i] == R && (optional || (i % 2) as u8 == turn) { return true; }
        i += 1;
    }
    false
}

macro_rules! family_covers {
    ($kinds:expr, $pos:expr, $q:expr, $present:expr, $opt:expr) => {{
        let kinds: &[u8] = $kinds;
        let pos: &Pos = $pos;
        let q: Key = $q;
        let present: bool = $present;
        let optional: bool = $opt;
        let np = count(kinds, P);
        cov!(present, "query is an emitted/pseudo-legal move");
        cov!(kinds.len() < 1 || (present && pos.sq[q.1 as usize] != EMPTY), "query captures a piece");
        cov!(np < 1 || (present && q.2 != 0), "query is a promotion");
        cov!(np < 2 || (present && is_ep_capture(pos, q.0, q.1)), "query is an en-passant capture");
        cov!(np < 1 || (present && kind(pos.sq[q.0 as usize]) == P && (q.0 as i32 - q.1 as i32).abs() == 16), "query is a double pawn push");
        cov!(!mover_can_have_rook(kinds, pos.turn, optional) || (present && is_castle(pos, q.0, q.1)), "query is a castling move");
        cov!(pos.half >= 128, "half-move clock >= 128");
    }};
}

// ---- C01 -------------------------------------------------------------------------------------------

/// C01.1 / C01.2: the pseudo-legal generator emits exactly the pseudo-legal moves, each once.
pub fn c01_gen(kinds: &[u8], turn: u8, optional: bool) {
    let (pos, bb) = any_pos(kinds, turn, optional);
    let q = any_key();
    let (m, _) = observe(&bb, q, false);
    let pl = pseudo_legal(&pos, q.0, q.1, q.2);
    family_covers!(kinds, &pos, q, pl, optional);
    cov!(!pl && pos.sq[q.0 as usize] != EMPTY && color(pos.sq[q.0 as usize]) == turn, "query from an own piece that is not pseudo-legal");
    assert!(m <= 1, "C01.1 generator emitted a move twice");
    assert!(m == 0 || pl, "C01.2 generator emitted a move the rules do not allow");
    assert!(!pl || m >= 1, "C01.2 generator misses a move the rules allow");
}

/// C01.3: the legality filter (make / is_valid / unmake, as used by generate_legal_moves, search, perft)
/// accepts exactly the moves that do not leave the own king attacked.
pub fn c01_legal(kinds: &[u8], turn: u8, optional: bool) {
    let (pos, mut bb, q, mv) = observed(kinds, turn, optional);
    sym::assume(pseudo_legal(&pos, q.0, q.1, q.2));
    let ref_legal = leaves_king_safe(&pos, q.0, q.1, q.2);
    family_covers!(kinds, &pos, q, true, optional);
    cov!(!ref_legal, "pseudo-legal move that leaves the own king attacked");
    cov!(ref_legal, "legal move");
    cov!(kinds.len() < 1 || (in_check(&pos, turn) && ref_legal), "legal move out of check");
    let got = bb.is_move_legal(mv);
    assert!(got == ref_legal, "C01.3 is_move_legal disagrees with the rules");
}

/// C01.4: the capture/promotion-only generator emits exactly the capture-or-promotion subset.
pub fn c01_nq(kinds: &[u8], turn: u8, optional: bool) {
    let (pos, bb) = any_pos(kinds, turn, optional);
    let q = any_key();
    let (m, _) = observe(&bb, q, true);
    let pl = pseudo_legal(&pos, q.0, q.1, q.2);
    let noisy = pl && (is_capture(&pos, q.0, q.1) || q.2 != 0);
    let np = count(kinds, P);
    cov!(kinds.len() < 1 || noisy, "query is a capture or promotion");
    cov!(np < 1 || (noisy && q.2 != 0 && pos.sq[q.1 as usize] == EMPTY), "query is a promotion without capture");
    cov!(np < 2 || (noisy && is_ep_capture(&pos, q.0, q.1)), "query is an en-passant capture");
    cov!(pl && !noisy, "quiet pseudo-legal move");
    assert!(m <= 1, "C01.4 quiescence generator emitted a move twice");
    assert!(m == 0 || noisy, "C01.4 quiescence generator emitted a quiet or illegal move");
    assert!(!noisy || m >= 1, "C01.4 quiescence generator misses a capture or promotion");
}

/// C01 on reachable positions: after playing any emitted legal move with the real `make`, the real generator
/// emits exactly the pseudo-legal moves of the successor the rules define (rights flags, e.p. square and
/// placement as left behind by `make` feed the next generation - e.g. a castling right that `make` failed
/// to clear yields a castling move without a rook here).
pub fn c01_gen_after(kinds: &[u8], turn: u8, optional: bool) {
    let (pos, mut bb, q, mv) = observed(kinds, turn, optional);
    sym::assume(legal(&pos, q.0, q.1, q.2));
    bb.make(mv);
    let n = apply(&pos, q.0, q.1, q.2);
    #[cfg(not(kani))]
    sym::note("successor_fen_by_rules", native::to_fen(&n));
    let q2 = any_key();
    let (m2, _) = observe(&bb, q2, false);
    let pl2 = pseudo_legal(&n, q2.0, q2.1, q2.2);
    cov!(pl2, "second query is pseudo-legal in the successor");
    cov!(count(kinds, P) < 2 || (pl2 && is_ep_capture(&n, q2.0, q2.1)), "second query is an en-passant capture made possible by the first move");
    cov!(!mover_can_have_rook(kinds, n.turn, optional) || (pl2 && is_castle(&n, q2.0, q2.1)), "second query is a castling move");
    assert!(m2 <= 1, "C01 generator emitted a move twice in a position reached by make");
    assert!(m2 == 0 || pl2, "C01 generator emitted a move the rules do not allow in a position reached by make");
    assert!(!pl2 || m2 >= 1, "C01 generator misses a move the rules allow in a position reached by make");
}

/// C01 (closure of the families): the validity predicate the position families assume - every castling right
/// implies king and rook on their home squares, an e.p. square implies the just-made double push, one king
/// per side, pawns off the back ranks, no square claimed by two bitboards - still holds after the real
/// `make` of any emitted move.  This is the inductive step that makes "all positions reachable by any move
/// sequence" follow from the one-step harnesses: a `make` that leaves a stale right or e.p. square behind
/// would let the generator emit a castling or e.p. move the rules do not allow one move later.
pub fn c01_inv(kinds: &[u8], turn: u8, optional: bool) {
    let (pos, mut bb, q, mv) = observed(kinds, turn, optional);
    family_covers!(kinds, &pos, q, true, optional);
    bb.make(mv);
    #[cfg(not(kani))]
    sym::note("after_make", crate::native_util::describe(&bb));
    let w = &bb.white;
    let b = &bb.black;
    let bit = |x: u64, s: u32| (x >> s) & 1 == 1;
    assert!(!w.king_side_castle || (bit(w.kings(), 60) && bit(w.rooks(), 63)), "C01 after make: white king-side right without king on e1 / rook on h1");
    assert!(!w.queen_side_castle || (bit(w.kings(), 60) && bit(w.rooks(), 56)), "C01 after make: white queen-side right without king on e1 / rook on a1");
    assert!(!b.king_side_castle || (bit(b.kings(), 4) && bit(b.rooks(), 7)), "C01 after make: black king-side right without king on e8 / rook on h8");
    assert!(!b.queen_side_castle || (bit(b.kings(), 4) && bit(b.rooks(), 0)), "C01 after make: black queen-side right without king on e8 / rook on a8");
    let occ = w.kings() | w.queens() | w.rooks() | w.bishops() | w.knights() | w.pawns() | b.kings() | b.queens() | b.rooks() | b.bishops() | b.knights() | b.pawns();
    let ep = bb.en_passant_square_shift;
    if ep != 0 {
        // the side that just moved (`turn`) made a double push over `ep`
        if turn == 0 {
            assert!(ep >= 40 && ep < 48 && bit(w.pawns(), ep - 8) && !bit(occ, ep) && !bit(occ, ep + 8), "C01 after make: e.p. square not behind a white pawn that just made a double push");
        } else {
            assert!(ep >= 16 && ep < 24 && bit(b.pawns(), ep + 8) && !bit(occ, ep) && !bit(occ, ep - 8), "C01 after make: e.p. square not behind a black pawn that just made a double push");
        }
    }
    assert!(bb.turn == 1 - turn as u32, "C01 after make: side to move not flipped");
    assert!((w.pawns() | b.pawns()) & 0xff000000000000ff == 0, "C01 after make: pawn on a back rank");
    let s = sym::sq();
    assert!(layers_at(&bb, s) <= 1, "C01 after make: two pieces on one square");
    // kings: one each, unless the move captured a king - impossible here because the side not to move is not in check
    assert!(w.kings().count_ones() == 1 && b.kings().count_ones() == 1, "C01 after make: not exactly one king per side");
}

// ---- C02 -------------------------------------------------------------------------------------------

/// C02: make(legal move) yields the successor the rules define, field by field.
pub fn c02_make(kinds: &[u8], turn: u8, optional: bool) {
    let (pos, mut bb, q, mv) = observed(kinds, turn, optional);
    sym::assume(legal(&pos, q.0, q.1, q.2));
    family_covers!(kinds, &pos, q, true, optional);
    cov!(!contains(kinds, R) || ((pos.wk || pos.wq || pos.bk || pos.bq) && (q.1 == 0 || q.1 == 7 || q.1 == 56 || q.1 == 63) && pos.sq[q.1 as usize] != EMPTY), "capture on a rook home square while rights exist");
    bb.make(mv);
    let n = apply(&pos, q.0, q.1, q.2);
    let s = sym::sq();
    #[cfg(not(kani))]
    {
        sym::note("expected_successor_fen", native::to_fen(&n));
        sym::note("actual_successor", crate::native_util::describe(&bb));
    }
    assert!(piece_at(&bb, s) == n.sq[s as usize] && layers_at(&bb, s) <= 1, "C02 piece placement after make differs from the rules");
    assert!(bb.turn == n.turn as u32, "C02 side to move after make");
    assert!(bb.en_passant_square_shift == n.ep as u32, "C02 en-passant target after make");
    assert!(bb.halfmove_clock == n.half, "C02 half-move clock after make");
    assert!(bb.fullmove_clock == n.full, "C02 full-move number after make");
    assert!(bb.white.king_side_castle == n.wk && bb.white.queen_side_castle == n.wq && bb.black.king_side_castle == n.bk && bb.black.queen_side_castle == n.bq, "C02 castling rights after make");
}

// ---- C03 -------------------------------------------------------------------------------------------

/// C03: make; unmake is the identity, for every move the generator can emit (legal or not).
pub fn c03_undo(kinds: &[u8], turn: u8, optional: bool) {
    let (pos, mut bb, q, mv) = observed(kinds, turn, optional);
    family_covers!(kinds, &pos, q, true, optional);
    let s0 = snap(&bb);
    let z0 = bb.calculate_zobrist_hash();
    let zp0 = bb.calculate_zobrist_pawn_hash();
    bb.make(mv);
    bb.unmake(mv);
    #[cfg(not(kani))]
    sym::note("after_make_unmake", crate::native_util::describe(&bb));
    assert!(same_but_half(&bb, &s0), "C03 make/unmake does not restore placement, side, rights, e.p. target or full-move number");
    assert!(bb.halfmove_clock == s0.half, "C03 make/unmake does not restore the half-move clock");
    let _ = (z0, zp0);
}

/// C03 (hashes): both hashes are the same after make; unmake.  Separate because the from-scratch hash
/// costs a table lookup per piece (cheap natively, expensive for the solver).
pub fn c03_undo_hash(kinds: &[u8], turn: u8, optional: bool) {
    let (_pos, mut bb, _q, mv) = observed(kinds, turn, optional);
    let z0 = bb.calculate_zobrist_hash();
    let zp0 = bb.calculate_zobrist_pawn_hash();
    bb.make(mv);
    bb.unmake(mv);
    assert!(bb.calculate_zobrist_hash() == z0, "C03 position hash differs after make/unmake");
    assert!(bb.calculate_zobrist_pawn_hash() == zp0, "C03 pawn hash differs after make/unmake");
}

/// C03 (lines): two moves made, then unmade in reverse order.
pub fn c03_line2(kinds: &[u8], turn: u8, optional: bool) {
    let (_pos, mut bb, _q, mv) = observed(kinds, turn, optional);
    let s0 = snap(&bb);
    bb.make(mv);
    // the property's quantifier stops at clock 4095 (the packed move reserves 12 bits for it)
    sym::assume(bb.halfmove_clock < 4096);
    let s1 = snap(&bb);
    let q2 = any_key();
    let (m2, mv2) = observe(&bb, q2, false);
    sym::assume(m2 == 1);
    cov!(true, "second pseudo-legal move exists");
    bb.make(mv2);
    bb.unmake(mv2);
    assert!(same(&bb, &s1), "C03 inner make/unmake of a two-move line does not restore the position");
    bb.unmake(mv);
    assert!(same(&bb, &s0), "C03 two-move line unmade in reverse order does not restore the position");
}

// ---- C05.2 -----------------------------------------------------------------------------------------

/// C05.2: after playing any emitted move, is_valid() <=> the mover's king is not attacked, and
/// is_current_in_check() <=> the opponent's king is attacked.
pub fn c05_valid(kinds: &[u8], turn: u8, optional: bool) {
    let (pos, mut bb, q, mv) = observed(kinds, turn, optional);
    sym::assume(pseudo_legal(&pos, q.0, q.1, q.2));
    family_covers!(kinds, &pos, q, true, optional);
    let n = apply(&pos, q.0, q.1, q.2);
    let mover_attacked = in_check(&n, turn);
    let opponent_attacked = in_check(&n, 1 - turn);
    cov!(mover_attacked, "move leaves own king attacked");
    cov!(kinds.len() < 1 || opponent_attacked, "move gives check");
    bb.make(mv);
    assert!(bb.is_valid() == !mover_attacked, "C05.2 is_valid after a move disagrees with the rules");
    assert!(bb.is_current_in_check() == opponent_attacked, "C05.2 is_current_in_check after a move disagrees with the rules");
}

// ---- C06.1 -----------------------------------------------------------------------------------------

/// C06.1: hash(before) ^ zobrist_xor(move) == hash(after), both hashes, for every legal move.  Under Kani
/// the piece-square key function is stubbed by an indicator of one symbolic probe index (DESIGN.md C06).
pub fn c06_incr(kinds: &[u8], turn: u8, optional: bool) {
    // probe index T* of the indicator key table (drawn in both modes so that the recorded stream lines up;
    // natively the real keys are used and T* is ignored)
    let t = sym::u32();
    sym::assume(t < 14 * 64);
    #[cfg(kani)]
    unsafe { crate::h_zobrist::T_STAR = t; }
    let _ = t;
    let (pos, mut bb, q, mv) = observed(kinds, turn, optional);
    sym::assume(legal(&pos, q.0, q.1, q.2));
    family_covers!(kinds, &pos, q, true, optional);
    let z0 = bb.calculate_zobrist_hash();
    let zp0 = bb.calculate_zobrist_pawn_hash();
    bb.make(mv);
    let (x, xp) = Bitboard::zobrist_xor(mv);
    assert!(z0 ^ x == bb.calculate_zobrist_hash(), "C06.1 incremental position hash differs from the recomputed hash");
    assert!(zp0 ^ xp == bb.calculate_zobrist_pawn_hash(), "C06.1 incremental pawn hash differs from the recomputed pawn hash");
}
