//! C06 lemmas on the real key table: zero rows, linearity, field independence, separation.
//! (C06.1, incremental == recomputed on the position families, lives in h_board.rs.)

use crate::cov;
use crate::refchess::*;
use crate::sym;
use inkayaku_board::verif;
use inkayaku_board::Bitboard;

/// Probe index of the indicator key table used by C06.1 under Kani.
pub static mut T_STAR: u32 = 0;

/// Stub target for `Zobrist::piece_square_hash` in C06.1: the indicator of one symbolic probe index.
/// Rows 0 and 7 ("no piece") are zero like in the real table (lemma `c06_zero_rows`).
pub fn psq_indicator(piece: u64, square: u32, color: u32) -> u64 {
    if piece == 0 { return 0; }
    let t = (piece as u32 + 7 * color) * 64 + square;
    (t == unsafe { T_STAR }) as u64
}

fn flags() -> (u32, (bool, bool, bool, bool), u32) {
    let turn = sym::u32();
    sym::assume(turn < 2);
    let r = (sym::bool(), sym::bool(), sym::bool(), sym::bool());
    let ep = sym::u32();
    sym::assume(ep == 0 || (ep >= 16 && ep < 24) || (ep >= 40 && ep < 48));
    (turn, r, ep)
}

/// kings + a list of (kind, colour, square) pieces; rights order (wk, wq, bk, bq)
fn board(wk: u8, bk: u8, pieces: &[(bool, u8, u8, u8)], turn: u32, r: (bool, bool, bool, bool), ep: u32, half: u32, full: u32) -> Bitboard {
    let mut w = [0u64; 7];
    let mut b = [0u64; 7];
    w[6] = 1u64 << wk;
    b[6] = 1u64 << bk;
    let mut i = 0;
    while i < pieces.len() {
        let (present, k, c, s) = pieces[i];
        if present {
            if c == 0 { w[k as usize] |= 1u64 << s; } else { b[k as usize] |= 1u64 << s; }
        }
        i += 1;
    }
    Bitboard { white: verif::player_state(w, r.1, r.0), black: verif::player_state(b, r.3, r.2), turn, en_passant_square_shift: ep, fullmove_clock: full, halfmove_clock: half }
}

fn any_piece(kind_lo: u8, kind_hi: u8, wk: u8, bk: u8) -> (bool, u8, u8, u8) {
    let k = sym::u8();
    sym::assume(k >= kind_lo && k <= kind_hi);
    let c = sym::u8();
    sym::assume(c < 2);
    let s = sym::sq();
    sym::assume(s != wk && s != bk);
    (true, k, c, s)
}

/// Premise of the indicator-key argument: the "no piece" rows of the real table are zero.
pub fn c06_zero_rows() {
    let s = sym::sq();
    let c = sym::u32();
    sym::assume(c < 2);
    assert!(verif::zobrist_piece_key(0, s as u32, c) == 0, "C06 real key table: 'no piece' row is not zero");
}

/// C06.2: the from-scratch hashes are XOR-linear in one piece, with the real table: adding piece x to a
/// board (kings + `nbase` optional further pieces of the same kind) XORs exactly key(x) into the position
/// hash, and into the pawn hash iff x is a pawn.
pub fn c06_linear(k: u8, nbase: usize) {
    let wk = sym::sq();
    let bk = sym::sq();
    sym::assume(wk != bk);
    let mut a = any_piece(k, k, wk, bk);
    a.0 = sym::bool();
    let mut b = any_piece(k, k, wk, bk);
    b.0 = if nbase >= 2 { sym::bool() } else { false };
    let x = any_piece(k, k, wk, bk);
    sym::assume((!a.0 || a.3 != x.3) && (!b.0 || b.3 != x.3) && (!a.0 || !b.0 || a.3 != b.3));
    let (turn, r, ep) = flags();
    cov!(a.0 && a.2 == x.2, "two pieces of one kind and colour");
    cov!(nbase < 2 || (a.0 && b.0 && a.2 == x.2 && b.2 == x.2), "three pieces of one kind and colour");
    let base = board(wk, bk, &[a, b], turn, r, ep, 0, 1);
    let full = board(wk, bk, &[a, b, x], turn, r, ep, 0, 1);
    let key = verif::zobrist_piece_key(x.1 as u64, x.3 as u32, x.2 as u32);
    assert!(full.calculate_zobrist_hash() == base.calculate_zobrist_hash() ^ key, "C06.2 position hash is not XOR-linear in a piece");
    let pkey = if k == P { key } else { 0 };
    assert!(full.calculate_zobrist_pawn_hash() == base.calculate_zobrist_pawn_hash() ^ pkey, "C06.2 pawn hash is not XOR-linear in a pawn / depends on a non-pawn");
}

/// C06.3: both hashes ignore the clocks.
pub fn c06_fields(two: bool) {
    let wk = sym::sq();
    let bk = sym::sq();
    sym::assume(wk != bk);
    let mut a = any_piece(P, Q, wk, bk);
    a.0 = sym::bool();
    let mut b = any_piece(P, Q, wk, bk);
    b.0 = if two { sym::bool() } else { false };
    sym::assume(!a.0 || !b.0 || a.3 != b.3);
    let (turn, r, ep) = flags();
    let (h1, f1, h2, f2) = (sym::u32(), sym::u32(), sym::u32(), sym::u32());
    cov!(h1 != h2 && f1 != f2, "clocks differ");
    let p = board(wk, bk, &[a, b], turn, r, ep, h1, f1);
    let q = board(wk, bk, &[a, b], turn, r, ep, h2, f2);
    assert!(p.calculate_zobrist_hash() == q.calculate_zobrist_hash(), "C06.3 position hash depends on a clock");
    assert!(p.calculate_zobrist_pawn_hash() == q.calculate_zobrist_pawn_hash(), "C06.3 pawn hash depends on a clock");
}

/// C06.4a/c: boards that differ in exactly one piece (other kind, colour, square, or presence) hash
/// differently.
pub fn c06_separate_piece() {
    let wk = sym::sq();
    let bk = sym::sq();
    sym::assume(wk != bk);
    let mut a = any_piece(P, Q, wk, bk);
    a.0 = sym::bool();
    let mut b = any_piece(P, Q, wk, bk);
    b.0 = sym::bool();
    sym::assume(a.0 != b.0 || (a.0 && (a.1, a.2, a.3) != (b.1, b.2, b.3)));
    let (turn, r, ep) = flags();
    cov!(a.0 && !b.0, "piece present vs absent");
    cov!(a.0 && b.0 && a.1 == b.1 && a.2 == b.2, "same piece on another square");
    let p = board(wk, bk, &[a], turn, r, ep, 0, 1);
    let q = board(wk, bk, &[b], turn, r, ep, 0, 1);
    assert!(p.calculate_zobrist_hash() != q.calculate_zobrist_hash(), "C06.4 two positions differing in one piece have the same hash");
}

/// C06.4d: boards that differ only in the square of one king hash differently.
pub fn c06_separate_king() {
    let wk = sym::sq();
    let bk = sym::sq();
    let wk2 = sym::sq();
    let bk2 = sym::sq();
    sym::assume(wk != bk && wk2 != bk2);
    sym::assume((wk != wk2) != (bk != bk2));
    let (turn, r, ep) = flags();
    let p = board(wk, bk, &[], turn, r, ep, 0, 1);
    let q = board(wk2, bk2, &[], turn, r, ep, 0, 1);
    assert!(p.calculate_zobrist_hash() != q.calculate_zobrist_hash(), "C06.4 two positions differing in a king square have the same hash");
}

/// C06.4b: boards that differ in exactly one of side to move / one castling right / e.p. file hash
/// differently.
pub fn c06_separate_flags() {
    let wk = sym::sq();
    let bk = sym::sq();
    sym::assume(wk != bk);
    let mut a = any_piece(P, Q, wk, bk);
    a.0 = sym::bool();
    let (t1, r1, e1) = flags();
    let (t2, r2, e2) = flags();
    let dt = (t1 != t2) as u8;
    let de = (e1 != e2) as u8;
    let dr = (r1.0 != r2.0) as u8 + (r1.1 != r2.1) as u8 + (r1.2 != r2.2) as u8 + (r1.3 != r2.3) as u8;
    sym::assume(dt + de + dr == 1);
    // two e.p. squares on the same file are the same "e.p. file" component
    sym::assume(de == 0 || e1 == 0 || e2 == 0 || e1 % 8 != e2 % 8);
    cov!(dt == 1, "side to move differs");
    cov!(dr == 1, "one castling right differs");
    cov!(de == 1 && e1 != 0 && e2 != 0, "e.p. file differs");
    cov!(de == 1 && e1 == 0, "e.p. none vs file");
    let p = board(wk, bk, &[a], t1, r1, e1, 0, 1);
    let q = board(wk, bk, &[a], t2, r2, e2, 0, 1);
    assert!(p.calculate_zobrist_hash() != q.calculate_zobrist_hash(), "C06.4 two positions differing in one flag have the same hash");
}

/// C06.2b: the from-scratch hashes include EVERY piece, whatever the multiset: the bitboard of one kind and
/// colour is a fully symbolic u64 (0..62 pieces of that kind), the rest of the board is the two kings.
/// Under Kani with indicator keys (probe index T* symbolic; by GF(2)-linearity this covers every key
/// table): hash(board) = hash(kings only) ^ [T* names (kind, colour, s) and bit s is set].  Natively the
/// real keys are XOR-ed over the set bits.
pub fn c06_occ(k: u8, c: u8) {
    let t = sym::u32();
    sym::assume(t < 14 * 64);
    #[cfg(kani)]
    unsafe { T_STAR = t; }
    let wk = sym::sq();
    let bk = sym::sq();
    sym::assume(wk != bk);
    let bits = sym::u64();
    sym::assume(bits & ((1u64 << wk) | (1u64 << bk)) == 0);
    let (turn, r, ep) = flags();
    cov!(bits.count_ones() >= 9, "nine or more pieces of one kind and colour");
    let mut w = [0u64; 7];
    let mut b = [0u64; 7];
    w[6] = 1u64 << wk;
    b[6] = 1u64 << bk;
    let base = Bitboard { white: verif::player_state(w, r.1, r.0), black: verif::player_state(b, r.3, r.2), turn, en_passant_square_shift: ep, fullmove_clock: 1, halfmove_clock: 0 };
    if c == 0 { w[k as usize] = bits; } else { b[k as usize] = bits; }
    let full = Bitboard { white: verif::player_state(w, r.1, r.0), black: verif::player_state(b, r.3, r.2), turn, en_passant_square_shift: ep, fullmove_clock: 1, halfmove_clock: 0 };
    #[cfg(kani)]
    let delta: u64 = {
        let row = (k as u32 + 7 * c as u32) * 64;
        if t >= row && t < row + 64 && (bits >> (t - row)) & 1 == 1 { 1 } else { 0 }
    };
    #[cfg(not(kani))]
    let delta: u64 = {
        let _ = t;
        sym::note("board", crate::native_util::describe(&full));
        let mut d = 0u64;
        for s in 0..64u32 {
            if (bits >> s) & 1 == 1 { d ^= verif::zobrist_piece_key(k as u64, s, c as u32); }
        }
        d
    };
    assert!(full.calculate_zobrist_hash() == base.calculate_zobrist_hash() ^ delta, "C06.2 from-scratch position hash leaves out (or counts twice) a piece of a crowded bitboard");
    let pdelta = if k == P { delta } else { 0 };
    assert!(full.calculate_zobrist_pawn_hash() == base.calculate_zobrist_pawn_hash() ^ pdelta, "C06.2 from-scratch pawn hash leaves out a pawn / includes a non-pawn");
}
