//! Cell lists (DESIGN.md 1.4).  A cell is a multiset K of piece kinds plus the side to move; every piece
//! of K is *optional* and of either colour, so a cell covers all sub-multisets of K as well.
//! `$cb` is the per-cell callback macro: `kfam!`-style macros in proofs.rs (Kani harnesses) and `rfam!`
//! in registry.rs (native replay), so both lists are generated from this one place.

/// kings only + all single kinds are sub-cells of these four |K| = 2 cells (each for both sides to move)
#[macro_export]
macro_rules! quick_cells {
    ($cb:ident, $group:ident, $body:path) => {
        $cb!($group, w_pp, $body, [P, P], 0, true);
        $cb!($group, b_pp, $body, [P, P], 1, true);
        $cb!($group, w_pr, $body, [P, R], 0, true);
        $cb!($group, b_pr, $body, [P, R], 1, true);
        $cb!($group, w_nq, $body, [N, Q], 0, true);
        $cb!($group, b_nq, $body, [N, Q], 1, true);
        $cb!($group, w_br, $body, [B, R], 0, true);
        $cb!($group, b_br, $body, [B, R], 1, true);
    };
}

/// the remaining eleven |K| = 2 multisets
#[macro_export]
macro_rules! deep2_cells {
    ($cb:ident, $group:ident, $body:path) => {
        $cb!($group, w_pn, $body, [P, N], 0, true);
        $cb!($group, b_pn, $body, [P, N], 1, true);
        $cb!($group, w_pb, $body, [P, B], 0, true);
        $cb!($group, b_pb, $body, [P, B], 1, true);
        $cb!($group, w_pq, $body, [P, Q], 0, true);
        $cb!($group, b_pq, $body, [P, Q], 1, true);
        $cb!($group, w_nn, $body, [N, N], 0, true);
        $cb!($group, b_nn, $body, [N, N], 1, true);
        $cb!($group, w_nb, $body, [N, B], 0, true);
        $cb!($group, b_nb, $body, [N, B], 1, true);
        $cb!($group, w_nr, $body, [N, R], 0, true);
        $cb!($group, b_nr, $body, [N, R], 1, true);
        $cb!($group, w_bb, $body, [B, B], 0, true);
        $cb!($group, b_bb, $body, [B, B], 1, true);
        $cb!($group, w_bq, $body, [B, Q], 0, true);
        $cb!($group, b_bq, $body, [B, Q], 1, true);
        $cb!($group, w_rr, $body, [R, R], 0, true);
        $cb!($group, b_rr, $body, [R, R], 1, true);
        $cb!($group, w_rq, $body, [R, Q], 0, true);
        $cb!($group, b_rq, $body, [R, Q], 1, true);
        $cb!($group, w_qq, $body, [Q, Q], 0, true);
        $cb!($group, b_qq, $body, [Q, Q], 1, true);
    };
}

/// selected |K| = 3 multisets (5-piece boards: e.p. capture uncovering a rank attack, double pins, ...)
#[macro_export]
macro_rules! deep3_cells {
    ($cb:ident, $group:ident, $body:path) => {
        $cb!($group, w_ppr, $body, [P, P, R], 0, true);
        $cb!($group, b_ppr, $body, [P, P, R], 1, true);
        $cb!($group, w_ppb, $body, [P, P, B], 0, true);
        $cb!($group, b_ppb, $body, [P, P, B], 1, true);
        $cb!($group, w_ppq, $body, [P, P, Q], 0, true);
        $cb!($group, b_ppq, $body, [P, P, Q], 1, true);
        $cb!($group, w_ppn, $body, [P, P, N], 0, true);
        $cb!($group, b_ppn, $body, [P, P, N], 1, true);
        $cb!($group, w_brr, $body, [B, R, R], 0, true);
        $cb!($group, b_brr, $body, [B, R, R], 1, true);
        $cb!($group, w_nrq, $body, [N, R, Q], 0, true);
        $cb!($group, b_nrq, $body, [N, R, Q], 1, true);
        $cb!($group, w_prq, $body, [P, R, Q], 0, true);
        $cb!($group, b_prq, $body, [P, R, Q], 1, true);
        $cb!($group, w_nbq, $body, [N, B, Q], 0, true);
        $cb!($group, b_nbq, $body, [N, B, Q], 1, true);
    };
}

/// tiny cells used for the slowest harness groups in the quick tier
#[macro_export]
macro_rules! tiny_cells {
    ($cb:ident, $group:ident, $body:path) => {
        $cb!($group, w_kk, $body, [], 0, true);
        $cb!($group, b_kk, $body, [], 1, true);
        $cb!($group, w_p, $body, [P], 0, true);
        $cb!($group, b_p, $body, [P], 1, true);
        $cb!($group, w_n, $body, [N], 0, true);
        $cb!($group, b_n, $body, [N], 1, true);
        $cb!($group, w_b, $body, [B], 0, true);
        $cb!($group, b_b, $body, [B], 1, true);
        $cb!($group, w_r, $body, [R], 0, true);
        $cb!($group, b_r, $body, [R], 1, true);
        $cb!($group, w_q, $body, [Q], 0, true);
        $cb!($group, b_q, $body, [Q], 1, true);
    };
}

/// "exact, opposed" cells: every piece of K present, colours alternating white/black in list order.  A
/// sub-case of the optional cell of the same K (about half its cost), used in the quick tier for the
/// two-rook and two-pawn interplay (rook takes rook on its home square, en passant).
#[macro_export]
macro_rules! exact_cells {
    ($cb:ident, $group:ident, $body:path) => {
        $cb!($group, w_xrr, $body, [R, R], 0, false);
        $cb!($group, b_xrr, $body, [R, R], 1, false);
        $cb!($group, w_xpp, $body, [P, P], 0, false);
        $cb!($group, b_xpp, $body, [P, P], 1, false);
        $cb!($group, w_xpr, $body, [P, R], 0, false);
        $cb!($group, b_xpr, $body, [P, R], 1, false);
        $cb!($group, w_xrp, $body, [R, P], 0, false);
        $cb!($group, b_xrp, $body, [R, P], 1, false);
        $cb!($group, w_xrrb, $body, [R, R, B], 0, false);
        $cb!($group, b_xrrb, $body, [R, R, B], 1, false);
        $cb!($group, w_xppb, $body, [P, P, B], 0, false);
        $cb!($group, b_xppb, $body, [P, P, B], 1, false);
        $cb!($group, w_xppr, $body, [P, P, R], 0, false);
        $cb!($group, b_xppr, $body, [P, P, R], 1, false);
        $cb!($group, w_xrq, $body, [R, Q], 0, false);
        $cb!($group, b_xrq, $body, [R, Q], 1, false);
    };
}

#[macro_export]
macro_rules! squares64 {
    ($cb:ident, $group:ident, $body:path) => {
        $cb!($group, s0, $body, 0);
        $cb!($group, s1, $body, 1);
        $cb!($group, s2, $body, 2);
        $cb!($group, s3, $body, 3);
        $cb!($group, s4, $body, 4);
        $cb!($group, s5, $body, 5);
        $cb!($group, s6, $body, 6);
        $cb!($group, s7, $body, 7);
        $cb!($group, s8, $body, 8);
        $cb!($group, s9, $body, 9);
        $cb!($group, s10, $body, 10);
        $cb!($group, s11, $body, 11);
        $cb!($group, s12, $body, 12);
        $cb!($group, s13, $body, 13);
        $cb!($group, s14, $body, 14);
        $cb!($group, s15, $body, 15);
        $cb!($group, s16, $body, 16);
        $cb!($group, s17, $body, 17);
        $cb!($group, s18, $body, 18);
        $cb!($group, s19, $body, 19);
        $cb!($group, s20, $body, 20);
        $cb!($group, s21, $body, 21);
        $cb!($group, s22, $body, 22);
        $cb!($group, s23, $body, 23);
        $cb!($group, s24, $body, 24);
        $cb!($group, s25, $body, 25);
        $cb!($group, s26, $body, 26);
        $cb!($group, s27, $body, 27);
        $cb!($group, s28, $body, 28);
        $cb!($group, s29, $body, 29);
        $cb!($group, s30, $body, 30);
        $cb!($group, s31, $body, 31);
        $cb!($group, s32, $body, 32);
        $cb!($group, s33, $body, 33);
        $cb!($group, s34, $body, 34);
        $cb!($group, s35, $body, 35);
        $cb!($group, s36, $body, 36);
        $cb!($group, s37, $body, 37);
        $cb!($group, s38, $body, 38);
        $cb!($group, s39, $body, 39);
        $cb!($group, s40, $body, 40);
        $cb!($group, s41, $body, 41);
        $cb!($group, s42, $body, 42);
        $cb!($group, s43, $body, 43);
        $cb!($group, s44, $body, 44);
        $cb!($group, s45, $body, 45);
        $cb!($group, s46, $body, 46);
        $cb!($group, s47, $body, 47);
        $cb!($group, s48, $body, 48);
        $cb!($group, s49, $body, 49);
        $cb!($group, s50, $body, 50);
        $cb!($group, s51, $body, 51);
        $cb!($group, s52, $body, 52);
        $cb!($group, s53, $body, 53);
        $cb!($group, s54, $body, 54);
        $cb!($group, s55, $body, 55);
        $cb!($group, s56, $body, 56);
        $cb!($group, s57, $body, 57);
        $cb!($group, s58, $body, 58);
        $cb!($group, s59, $body, 59);
        $cb!($group, s60, $body, 60);
        $cb!($group, s61, $body, 61);
        $cb!($group, s62, $body, 62);
        $cb!($group, s63, $body, 63);
    };
}
