//! Kani harness crate for marvk/inkayaku - see /verif/DESIGN.md.
//!
//! Built in two modes from the same sources:
//!  * `cargo kani --features cXX` (cfg(kani)): `proofs.rs` turns the bodies of `h_*.rs` into
//!    `#[kani::proof]` harnesses, one module per harness group, one function per cell;
//!  * natively (`cargo build --bin replay`, `cargo test`): `registry.rs` maps the same harness names to the
//!    same bodies, with `sym::*` reading a recorded counterexample instead of `kani::any()` and without any
//!    stub - the real `Vec::push`, the real magic tables, the real `format!`.
#![allow(dead_code)]
#![allow(static_mut_refs)]
#![cfg_attr(kani, feature(allocator_api))]

extern crate alloc;

pub mod cells;
pub mod family;
pub mod h_board;
pub mod h_c13;
pub mod h_check;
pub mod h_cmd;
pub mod h_engine;
pub mod h_tables;
pub mod h_uci;
pub mod h_zobrist;
#[cfg(not(kani))]
pub mod native_util;
pub mod refchess;
pub mod sym;

#[cfg(kani)]
mod proofs;
#[cfg(not(kani))]
pub mod registry;
