//! Native-only rendering helpers for replay files.
use crate::family::piece_at;
use crate::refchess::*;
use inkayaku_board::Bitboard;

/// FEN-like rendering of a Bitboard that never panics (the repository's own FEN writer unwraps a regex
/// match and would panic on a corrupted board).
pub fn describe(bb: &Bitboard) -> String {
    let mut sq = [EMPTY; 64];
    for s in 0..64u8 { sq[s as usize] = piece_at(bb, s); }
    let p = Pos {
        sq, kings: [64, 64], turn: bb.turn as u8,
        wk: bb.white.king_side_castle, wq: bb.white.queen_side_castle, bk: bb.black.king_side_castle, bq: bb.black.queen_side_castle,
        ep: bb.en_passant_square_shift as u8, half: bb.halfmove_clock, full: bb.fullmove_clock,
    };
    let mut s = native::to_fen(&p);
    for k in 1..=6u64 {
        for k2 in 1..=6u64 {
            if (k2 > k && bb.white.occupancy(k) & bb.white.occupancy(k2) != 0) || (k2 > k && bb.black.occupancy(k) & bb.black.occupancy(k2) != 0) || bb.white.occupancy(k) & bb.black.occupancy(k2) != 0 {
                s.push_str(" [overlapping piece bitboards]");
                return s;
            }
        }
    }
    s
}
