//! Native replayer: `replay <file.json>` runs the harness named in the file on the recorded `kani::any()`
//! values, with no stubs, and reports whether the assertion fails against the real code.
//!
//! File format (written by /verif/check): {"harness": "c03_undo::w_nq", "values": [[1],[2,0,0,0],...], ...}
//! Output (one JSON object on stdout):
//!   {"outcome": "violated", "message": "...", "notes": {...}}   the assertion failed natively
//!   {"outcome": "held", ...}                                     the body ran to the end
//!   {"outcome": "inconclusive", "message": "ASSUME_VIOLATED" | "STREAM_..." | other panic}
//! Exit status: 1 violated, 0 held, 2 inconclusive / usage.

#[cfg(kani)]
fn main() {}

#[cfg(not(kani))]
use std::panic;

#[cfg(not(kani))]
fn parse_values(text: &str) -> Option<(String, Vec<Vec<u8>>)> {
    // minimal JSON reader for the two fields we need (no serde in the offline registry for this crate)
    let h = text.find("\"harness\"")?;
    let rest = &text[h + 9..];
    let q1 = rest.find('"')?;
    let rest2 = &rest[q1 + 1..];
    let q2 = rest2.find('"')?;
    let harness = rest2[..q2].to_string();
    let v = text.find("\"values\"")?;
    let rest = &text[v + 8..];
    let open = rest.find('[')?;
    let mut depth = 0;
    let mut cur: Vec<u8> = Vec::new();
    let mut num = String::new();
    let mut out: Vec<Vec<u8>> = Vec::new();
    for ch in rest[open..].chars() {
        match ch {
            '[' => { depth += 1; if depth == 2 { cur = Vec::new(); } }
            ']' => {
                if !num.is_empty() { cur.push(num.parse().ok()?); num.clear(); }
                if depth == 2 { out.push(cur.clone()); }
                depth -= 1;
                if depth == 0 { break; }
            }
            ',' => { if !num.is_empty() { cur.push(num.parse().ok()?); num.clear(); } }
            c if c.is_ascii_digit() => num.push(c),
            _ => {}
        }
    }
    Some((harness, out))
}

#[cfg(not(kani))]
fn esc(s: &str) -> String {
    let mut o = String::new();
    for c in s.chars() {
        match c {
            '"' => o.push_str("\\\""),
            '\\' => o.push_str("\\\\"),
            '\n' => o.push_str("\\n"),
            c if (c as u32) < 0x20 => o.push_str(&format!("\\u{:04x}", c as u32)),
            c => o.push(c),
        }
    }
    o
}

#[cfg(not(kani))]
fn main() {
    let args: Vec<String> = std::env::args().collect();
    if args.len() == 2 && args[1] == "--list" {
        for n in ivk::registry::names() { println!("{}", n); }
        return;
    }
    if args.len() != 2 {
        eprintln!("usage: replay <file.json> | --list");
        std::process::exit(2);
    }
    let text = std::fs::read_to_string(&args[1]).expect("cannot read replay file");
    let (harness, values) = parse_values(&text).expect("replay file lacks harness/values");
    ivk::sym::load(values);
    panic::set_hook(Box::new(|_| {}));
    let h2 = harness.clone();
    let result = panic::catch_unwind(move || ivk::registry::run(&h2));
    let notes = ivk::sym::take_notes();
    let notes_json = notes.iter().map(|(k, v)| format!("\"{}\": \"{}\"", esc(k), esc(v))).collect::<Vec<_>>().join(", ");
    let (outcome, message, code) = match result {
        Ok(true) => ("held", String::new(), 0),
        Ok(false) => ("inconclusive", format!("unknown harness {}", harness), 2),
        Err(e) => {
            let msg = if let Some(s) = e.downcast_ref::<&str>() { s.to_string() } else if let Some(s) = e.downcast_ref::<String>() { s.clone() } else { "panic".to_string() };
            if msg.starts_with("ASSUME_VIOLATED") || msg.starts_with("STREAM_") { ("inconclusive", msg, 2) } else { ("violated", msg, 1) }
        }
    };
    println!("{{\"harness\": \"{}\", \"outcome\": \"{}\", \"message\": \"{}\", \"profile\": \"{}\", \"notes\": {{{}}}}}", esc(&harness), outcome, esc(&message), if cfg!(debug_assertions) { "dev" } else { "release" }, notes_json);
    std::process::exit(code);
}
