//! Prints the real magic configurations and attack tables of the current build of /repo as JSON lines, for
//! the z3/cvc5 re-encoding of C04 (thorough tier).  One line per (kind, square):
//! {"kind":"rook","square":0,"mask":..,"magic":..,"hash_mask":..,"hash_shift":..,"table":[..]}

#[cfg(kani)]
fn main() {}

#[cfg(not(kani))]
fn main() {
    use inkayaku_board::verif;
    for (kind, magics) in [("rook", verif::rook_magics()), ("bishop", verif::bishop_magics())] {
        for sq in 0..64 {
            let m = &magics[sq];
            let table: Vec<String> = m.verif_table().iter().map(|v| v.to_string()).collect();
            println!(
                "{{\"kind\":\"{}\",\"square\":{},\"mask\":{},\"magic\":{},\"hash_mask\":{},\"hash_shift\":{},\"table\":[{}]}}",
                kind, sq, m.verif_mask(), m.verif_magic(), m.verif_hash_mask(), m.verif_hash_shift(), table.join(",")
            );
        }
    }
}
