//! `#[kani::proof]` harnesses: thin wrappers around the bodies in `h_*.rs`.
//! Harness path = `proofs::<group>::<cell>`; one cargo feature per property so that a run only compiles the
//! harnesses it needs; every cell of every tier is always declared (only the harnesses named with --harness are code-generated).

#![allow(unused_imports)]
#![allow(unused_macros)]

use crate::family::magics_model;
use crate::family::obs::push_observer;
use crate::h_c13::{cut_success_path, find_uci_model, format_any, gen_any_one, uci_string_any};
use crate::h_zobrist::psq_indicator;
use crate::refchess::{B, N, P, Q, R};
use crate::{deep2_cells, deep3_cells, exact_cells, quick_cells, squares64, tiny_cells};

/// family harness: push observer + lookup model
macro_rules! kfam {
    ($group:ident, $cell:ident, $body:path, $kinds:expr, $turn:expr, $opt:expr) => {
        #[kani::proof]
        #[kani::unwind(9)]
        #[kani::stub(std::vec::Vec::push, push_observer)]
        #[kani::stub(<[inkayaku_board::verif::MagicConfiguration; 64] as inkayaku_board::verif::UnsafeMagicsExt>::get_attacks, magics_model)]
        pub fn $cell() { $body(&$kinds, $turn, $opt) }
    };
}

/// C06.1: additionally indicator keys
macro_rules! kfam6 {
    ($group:ident, $cell:ident, $body:path, $kinds:expr, $turn:expr, $opt:expr) => {
        #[kani::proof]
        #[kani::unwind(9)]
        #[kani::stub(std::vec::Vec::push, push_observer)]
        #[kani::stub(<[inkayaku_board::verif::MagicConfiguration; 64] as inkayaku_board::verif::UnsafeMagicsExt>::get_attacks, magics_model)]
        #[kani::stub(inkayaku_board::board::zobrist::Zobrist::piece_square_hash, psq_indicator)]
        pub fn $cell() { $body(&$kinds, $turn, $opt) }
    };
}

/// C13: additionally the one-element list abstraction and the arbitrary-string `format`
macro_rules! kfam13 {
    ($group:ident, $cell:ident, $body:path, $kinds:expr, $turn:expr, $opt:expr) => {
        #[kani::proof]
        #[kani::unwind(9)]
        #[kani::stub(std::vec::Vec::push, push_observer)]
        #[kani::stub(<[inkayaku_board::verif::MagicConfiguration; 64] as inkayaku_board::verif::UnsafeMagicsExt>::get_attacks, magics_model)]
        #[kani::stub(inkayaku_board::Bitboard::generate_pseudo_legal_moves, gen_any_one)]
        #[kani::stub(inkayaku_board::Move::to_uci_string, uci_string_any)]
        #[kani::stub(alloc::fmt::format, format_any)]
        pub fn $cell() { $body(&$kinds, $turn, $opt) }
    };
}

/// C13 make_all_uci: find_uci replaced by the model c13_find justifies
macro_rules! kfam13all {
    ($group:ident, $cell:ident, $body:path, $kinds:expr, $turn:expr, $opt:expr) => {
        #[kani::proof]
        #[kani::unwind(9)]
        #[kani::stub(std::vec::Vec::push, push_observer)]
        #[kani::stub(<[inkayaku_board::verif::MagicConfiguration; 64] as inkayaku_board::verif::UnsafeMagicsExt>::get_attacks, magics_model)]
        #[kani::stub(inkayaku_board::Bitboard::find_uci, find_uci_model)]
        pub fn $cell() { $body(&$kinds, $turn, $opt) }
    };
}

/// C13 uci_to_pgn: additionally the success path is cut after the validity check
macro_rules! kfam13san {
    ($group:ident, $cell:ident, $body:path, $kinds:expr, $turn:expr, $opt:expr) => {
        #[kani::proof]
        #[kani::unwind(9)]
        #[kani::stub(std::vec::Vec::push, push_observer)]
        #[kani::stub(<[inkayaku_board::verif::MagicConfiguration; 64] as inkayaku_board::verif::UnsafeMagicsExt>::get_attacks, magics_model)]
        #[kani::stub(inkayaku_board::Bitboard::generate_pseudo_legal_moves, gen_any_one)]
        #[kani::stub(inkayaku_board::Move::to_uci_string, uci_string_any)]
        #[kani::stub(alloc::fmt::format, format_any)]
        #[kani::stub(inkayaku_board::Bitboard::is_current_in_check, cut_success_path)]
        pub fn $cell() { $body(&$kinds, $turn, $opt) }
    };
}

/// C04 per-square harness: real lookup, no stub
macro_rules! ksq {
    ($group:ident, $cell:ident, $body:path, $sq:expr) => {
        #[kani::proof]
        #[kani::unwind(9)]
        pub fn $cell() { $body($sq) }
    };
}

/// plain harness: `kplain!(name, unwind, stub-with-lookup-model?, call)`
macro_rules! kplain {
    ($name:ident, $unwind:expr, $call:expr) => {
        #[kani::proof]
        #[kani::unwind($unwind)]
        pub fn $name() { $call }
    };
}
macro_rules! kmodel {
    ($name:ident, $unwind:expr, $call:expr) => {
        #[kani::proof]
        #[kani::unwind($unwind)]
        #[kani::stub(<[inkayaku_board::verif::MagicConfiguration; 64] as inkayaku_board::verif::UnsafeMagicsExt>::get_attacks, magics_model)]
        pub fn $name() { $call }
    };
}

macro_rules! family_group {
    ($feature:literal, $group:ident, $k:ident, $body:path) => {
        #[cfg(feature = $feature)]
        pub mod $group {
            use super::*;
            // Kani only generates code for the harnesses selected with --harness, so listing every cell
            // here costs nothing at verification time
            quick_cells!($k, $group, $body);
            deep2_cells!($k, $group, $body);
            deep3_cells!($k, $group, $body);
            tiny_cells!($k, $group, $body);
            exact_cells!($k, $group, $body);
        }
    };
}

family_group!("c01", c01_gen, kfam, crate::h_board::c01_gen);
family_group!("c01", c01_legal, kfam, crate::h_board::c01_legal);
family_group!("c01", c01_nq, kfam, crate::h_board::c01_nq);
family_group!("c01", c01_gen_after, kfam, crate::h_board::c01_gen_after);
family_group!("c01", c01_inv, kfam, crate::h_board::c01_inv);
family_group!("c02", c02_make, kfam, crate::h_board::c02_make);
family_group!("c03", c03_undo, kfam, crate::h_board::c03_undo);
family_group!("c03", c03_undo_hash, kfam, crate::h_board::c03_undo_hash);
family_group!("c03", c03_line2, kfam, crate::h_board::c03_line2);
family_group!("c05", c05_valid, kfam, crate::h_board::c05_valid);
family_group!("c06", c06_incr, kfam6, crate::h_board::c06_incr);
family_group!("c13", c13_find, kfam13, crate::h_c13::c13_find);
family_group!("c13", c13_make, kfam13, crate::h_c13::c13_make);
family_group!("c13", c13_all, kfam13all, crate::h_c13::c13_all);
family_group!("c13", c13_allw, kfam13all, crate::h_c13::c13_allw);
family_group!("c13", c13_san, kfam13san, crate::h_c13::c13_san);

#[cfg(feature = "c04")]
pub mod c04_rook {
    use super::*;
    squares64!(ksq, c04_rook, crate::h_tables::c04_rook);
}
#[cfg(feature = "c04")]
pub mod c04_bishop {
    use super::*;
    squares64!(ksq, c04_bishop, crate::h_tables::c04_bishop);
}
#[cfg(feature = "c04")]
pub mod c04_leapers {
    use super::*;
    kplain!(all, 9, crate::h_tables::c04_leapers());
}

#[cfg(feature = "c05")]
pub mod c05_full {
    use super::*;
    kmodel!(check, 9, crate::h_check::c05_check_full(2));
    kmodel!(check_w, 9, crate::h_check::c05_check_full(0));
    kmodel!(check_b, 9, crate::h_check::c05_check_full(1));
    kmodel!(terminal, 9, crate::h_engine::c11_terminal());
}

/// lemma under indicator keys (no observer, no lookup model)
macro_rules! kpsq {
    ($name:ident, $unwind:expr, $call:expr) => {
        #[kani::proof]
        #[kani::unwind($unwind)]
        #[kani::stub(inkayaku_board::board::zobrist::Zobrist::piece_square_hash, psq_indicator)]
        pub fn $name() { $call }
    };
}

#[cfg(feature = "c06")]
pub mod c06_occ {
    use super::*;
    kpsq!(w_p, 66, crate::h_zobrist::c06_occ(P, 0));
    kpsq!(b_p, 66, crate::h_zobrist::c06_occ(P, 1));
    kpsq!(w_n, 66, crate::h_zobrist::c06_occ(N, 0));
    kpsq!(b_n, 66, crate::h_zobrist::c06_occ(N, 1));
    kpsq!(w_b, 66, crate::h_zobrist::c06_occ(B, 0));
    kpsq!(b_b, 66, crate::h_zobrist::c06_occ(B, 1));
    kpsq!(w_r, 66, crate::h_zobrist::c06_occ(R, 0));
    kpsq!(b_r, 66, crate::h_zobrist::c06_occ(R, 1));
    kpsq!(w_q, 66, crate::h_zobrist::c06_occ(Q, 0));
    kpsq!(b_q, 66, crate::h_zobrist::c06_occ(Q, 1));
}

#[cfg(feature = "c06")]
pub mod c06_lemma {
    use super::*;
    kplain!(zero_rows, 2, crate::h_zobrist::c06_zero_rows());
    kplain!(linear_p, 5, crate::h_zobrist::c06_linear(P, 1));
    kplain!(linear3_p, 5, crate::h_zobrist::c06_linear(P, 2));
    kplain!(linear_n, 5, crate::h_zobrist::c06_linear(N, 1));
    kplain!(linear3_n, 5, crate::h_zobrist::c06_linear(N, 2));
    kplain!(linear_b, 5, crate::h_zobrist::c06_linear(B, 1));
    kplain!(linear3_b, 5, crate::h_zobrist::c06_linear(B, 2));
    kplain!(linear_r, 5, crate::h_zobrist::c06_linear(R, 1));
    kplain!(linear3_r, 5, crate::h_zobrist::c06_linear(R, 2));
    kplain!(linear_q, 5, crate::h_zobrist::c06_linear(Q, 1));
    kplain!(linear3_q, 5, crate::h_zobrist::c06_linear(Q, 2));
    kplain!(fields, 5, crate::h_zobrist::c06_fields(false));
    kplain!(fields2, 5, crate::h_zobrist::c06_fields(true));
    kplain!(separate_piece, 4, crate::h_zobrist::c06_separate_piece());
    kplain!(separate_king, 4, crate::h_zobrist::c06_separate_king());
    kplain!(separate_flags, 4, crate::h_zobrist::c06_separate_flags());
}

#[cfg(feature = "c10")]
pub mod c10 {
    use super::*;
    kplain!(rep_b0_w12, 15, crate::h_engine::c10_rep::<12>(0, 4095));
    kplain!(rep_b1_w12, 15, crate::h_engine::c10_rep::<12>(1, 4095));
    kplain!(rep_b100_w40, 43, crate::h_engine::c10_rep::<40>(100, 40));
    kplain!(rep_b4959_w40, 43, crate::h_engine::c10_rep::<40>(4959, 40));
    kplain!(rep_b100_w120, 123, crate::h_engine::c10_rep::<120>(100, 120));
    kplain!(rep_b4879_w120, 123, crate::h_engine::c10_rep::<120>(4879, 120));
    kplain!(index_inrange, 2, crate::h_engine::c10_index(2500));
    kplain!(index_all, 2, crate::h_engine::c10_index(u32::MAX));
    kplain!(fifty, 4, crate::h_engine::c10_fifty());
}

#[cfg(feature = "c11")]
pub mod c11 {
    use super::*;
    kplain!(tables, 2, crate::h_engine::c11_tables());
    kplain!(stage, 2, crate::h_engine::c11_stage());
    kplain!(material, 2, crate::h_engine::c11_material());
    kplain!(eval1, 4, crate::h_engine::c11_eval(1, 0b111110));
    kplain!(eval1_pnb, 4, crate::h_engine::c11_eval(1, 0b001110));
    kplain!(eval1_rq, 4, crate::h_engine::c11_eval(1, 0b110000));
    kplain!(eval2_p, 4, crate::h_engine::c11_eval(2, 0b000010));
    kplain!(eval2_n, 4, crate::h_engine::c11_eval(2, 0b000100));
    kplain!(eval2_b, 4, crate::h_engine::c11_eval(2, 0b001000));
    kplain!(eval2_r, 4, crate::h_engine::c11_eval(2, 0b010000));
    kplain!(eval2_q, 4, crate::h_engine::c11_eval(2, 0b100000));
    kplain!(eval3_p, 5, crate::h_engine::c11_eval(3, 0b000010));
    kplain!(factor, 2, crate::h_engine::c11_factor());
    kmodel!(terminal, 9, crate::h_engine::c11_terminal());
    kplain!(mate_distance, 2, crate::h_engine::c11_mate_distance());
}

#[cfg(feature = "c15")]
pub mod c15 {
    use super::*;
    kplain!(move_total, 8, crate::h_uci::c15_move_total());
    kplain!(square, 2, crate::h_uci::c15_square());
    kplain!(square_text, 4, crate::h_uci::c15_square_text());
    kplain!(roundtrip, 8, crate::h_uci::c15_roundtrip());
    kplain!(uci_text, 14, crate::h_uci::c13_uci_text());
    kplain!(text_parts, 14, crate::h_uci::c13_text_parts());
    kplain!(go_tokens, 14, crate::h_cmd::c15_go_tokens());
    kplain!(numbers, 14, crate::h_cmd::c15_numbers());
    kplain!(searchmoves_0, 14, crate::h_cmd::c15_searchmoves(0));
    kplain!(searchmoves_1, 14, crate::h_cmd::c15_searchmoves(1));
    kplain!(searchmoves_2, 14, crate::h_cmd::c15_searchmoves(2));
    kplain!(searchmoves_3, 14, crate::h_cmd::c15_searchmoves(3));
    kplain!(searchmoves_4, 14, crate::h_cmd::c15_searchmoves(4));
    kplain!(searchmoves_5, 14, crate::h_cmd::c15_searchmoves(5));
    kplain!(searchmoves_6, 14, crate::h_cmd::c15_searchmoves(6));
    kplain!(searchmoves_7, 14, crate::h_cmd::c15_searchmoves(7));
    kplain!(searchmoves_8, 14, crate::h_cmd::c15_searchmoves(8));
    kplain!(searchmoves_9, 14, crate::h_cmd::c15_searchmoves(9));
    kplain!(searchmoves_10, 14, crate::h_cmd::c15_searchmoves(10));
    kplain!(searchmoves_11, 14, crate::h_cmd::c15_searchmoves(11));
    // beyond CBMC (kept for the record, not part of any tier): tokenisation of symbolic text
    kplain!(tokens, 14, crate::h_cmd::c15_tokens());
}

/// Vacuity twins (DESIGN.md 1.6): the same bodies followed by `assert!(false)`.  Each must come back FAILED
/// with exactly the "TWIN" check failing - otherwise the assumptions of the harness are contradictory (or
/// the body never terminates within the bounds) and a pass of the real harness would mean nothing.
#[cfg(feature = "twins")]
pub mod twin {
    use super::*;
    macro_rules! ktwin {
        ($group:ident, $cell:ident, $body:path, $kinds:expr, $turn:expr, $opt:expr) => {
            #[kani::proof]
            #[kani::unwind(9)]
            #[kani::stub(std::vec::Vec::push, push_observer)]
            #[kani::stub(<[inkayaku_board::verif::MagicConfiguration; 64] as inkayaku_board::verif::UnsafeMagicsExt>::get_attacks, magics_model)]
            #[kani::stub(inkayaku_board::board::zobrist::Zobrist::piece_square_hash, psq_indicator)]
            pub fn $cell() {
                $body(&$kinds, $turn, $opt);
                assert!(false, "TWIN end of harness body reached");
            }
        };
    }
    ktwin!(twin, c01_gen, crate::h_board::c01_gen, [P], 0, true);
    ktwin!(twin, c01_legal, crate::h_board::c01_legal, [P], 1, true);
    ktwin!(twin, c01_nq, crate::h_board::c01_nq, [P], 0, true);
    ktwin!(twin, c02_make, crate::h_board::c02_make, [P], 1, true);
    ktwin!(twin, c03_undo, crate::h_board::c03_undo, [P], 0, true);
    ktwin!(twin, c05_valid, crate::h_board::c05_valid, [P], 1, true);
    ktwin!(twin, c06_incr, crate::h_board::c06_incr, [P], 0, true);
    macro_rules! ktwin13 {
        ($cell:ident, $body:path) => {
            #[kani::proof]
            #[kani::unwind(9)]
            #[kani::stub(std::vec::Vec::push, push_observer)]
            #[kani::stub(<[inkayaku_board::verif::MagicConfiguration; 64] as inkayaku_board::verif::UnsafeMagicsExt>::get_attacks, magics_model)]
            #[kani::stub(inkayaku_board::Bitboard::generate_pseudo_legal_moves, gen_any_one)]
            #[kani::stub(inkayaku_board::Move::to_uci_string, uci_string_any)]
            #[kani::stub(alloc::fmt::format, format_any)]
            pub fn $cell() {
                $body(&[], 0, true);
                assert!(false, "TWIN end of harness body reached");
            }
        };
    }
    ktwin13!(c13_find, crate::h_c13::c13_find);
    ktwin13!(c13_make, crate::h_c13::c13_make);
    macro_rules! ktwinp {
        ($name:ident, $unwind:expr, $call:expr) => {
            #[kani::proof]
            #[kani::unwind($unwind)]
            #[kani::stub(<[inkayaku_board::verif::MagicConfiguration; 64] as inkayaku_board::verif::UnsafeMagicsExt>::get_attacks, magics_model)]
            pub fn $name() {
                $call;
                assert!(false, "TWIN end of harness body reached");
            }
        };
    }
    ktwinp!(c04_rook, 9, crate::h_tables::c04_rook(27));
    ktwinp!(c04_leapers, 9, crate::h_tables::c04_leapers());
    ktwinp!(c05_check, 9, crate::h_check::c05_check_full(0));
    ktwinp!(c06_linear, 5, crate::h_zobrist::c06_linear(R, 1));
    ktwinp!(c06_separate_flags, 4, crate::h_zobrist::c06_separate_flags());
    ktwinp!(c10_rep, 15, crate::h_engine::c10_rep::<12>(0, 4095));
    ktwinp!(c10_fifty, 4, crate::h_engine::c10_fifty());
    ktwinp!(c11_eval, 4, crate::h_engine::c11_eval(1, 0b001110));
    ktwinp!(c11_terminal, 9, crate::h_engine::c11_terminal());
    ktwinp!(c11_mate_distance, 2, crate::h_engine::c11_mate_distance());
    ktwinp!(c15_move_total, 8, crate::h_uci::c15_move_total());
    ktwinp!(c15_roundtrip, 8, crate::h_uci::c15_roundtrip());
}

#[cfg(feature = "dbg")]
pub mod dbg {
    use super::*;
    use inkayaku_board::verif;
    use inkayaku_board::Bitboard;
    #[kani::proof]
    #[kani::unwind(9)]
    #[kani::stub(std::vec::Vec::push, push_observer)]
    #[kani::stub(<[inkayaku_board::verif::MagicConfiguration; 64] as inkayaku_board::verif::UnsafeMagicsExt>::get_attacks, magics_model)]
    #[kani::stub(inkayaku_board::Bitboard::generate_pseudo_legal_moves, gen_any_one)]
    #[kani::stub(alloc::fmt::format, format_any)]
    pub fn find_concrete() {
        let mut w = [0u64; 7];
        let mut b = [0u64; 7];
        w[6] = 1u64 << 60;
        b[6] = 1u64 << 44;
        let mut bb = Bitboard { white: verif::player_state(w, false, false), black: verif::player_state(b, false, false), turn: 0, en_passant_square_shift: 0, fullmove_clock: 1, halfmove_clock: 0 };
        let b: [u8; 5] = [kani::any::<u8>() & 127, kani::any::<u8>() & 127, kani::any::<u8>() & 127, kani::any::<u8>() & 127, kani::any::<u8>() & 127];
        let five: bool = kani::any();
        let t = unsafe { std::str::from_utf8_unchecked(&b[..if five { 5 } else { 4 }]) };
        let r = bb.find_uci(t);
        core::mem::forget(r);
    }
}
