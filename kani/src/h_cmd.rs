//! C15 (command layer, token level): the private token-level parsers of `CommandParser`, reached through
//! cfg(inkayaku_verif) hooks.  `CommandParser::parse()` itself (the dispatcher returning `UciCommand`)
//! makes Kani 0.68 crash while compiling and `parse_go` needs a `HashSet`; what is decided here is what the
//! dispatcher is built from: tokenisation, the `go` keyword table, the `searchmoves`/`moves` list parser
//! and the number parsers.

use crate::cov;
use crate::sym;
use inkayaku_uci::parser::CommandParser;

/// the `go` sub-commands of the UCI specification
pub const SPEC_GO_KEYWORDS: [&str; 12] = ["searchmoves", "ponder", "wtime", "btime", "winc", "binc", "movestogo", "depth", "nodes", "mate", "movetime", "infinite"];

fn is_spec_keyword(t: &[u8]) -> bool {
    let mut i = 0;
    while i < 12 {
        if SPEC_GO_KEYWORDS[i].as_bytes() == t { return true; }
        i += 1;
    }
    false
}

/// C15.5: the keyword table that ends a `searchmoves` list is exactly the specification's keyword set.
pub fn c15_go_tokens() {
    let t = CommandParser::verif_go_tokens();
    let mut i = 0;
    while i < 12 {
        let mut found = 0;
        let mut j = 0;
        while j < t.len() {
            if t[j].as_bytes() == SPEC_GO_KEYWORDS[i].as_bytes() { found += 1; }
            j += 1;
        }
        assert!(found == 1, "C15.5 a go keyword of the UCI specification is missing from (or duplicated in) the parser's keyword table");
        i += 1;
    }
    assert!(t.len() == 12, "C15.5 the parser's go keyword table has extra entries");
}

fn is_file(b: u8) -> bool { b >= b'a' && b <= b'h' }
fn is_rank(b: u8) -> bool { b >= b'1' && b <= b'8' }
fn well_formed(m: &[u8; 4]) -> bool { is_file(m[0]) && is_rank(m[1]) && is_file(m[2]) && is_rank(m[3]) }
fn sq_index(f: u8, r: u8) -> u32 { ((b'8' - r) as u32) * 8 + (f - b'a') as u32 }

/// C15.6: `searchmoves m1 m2 <keyword> ...`: the move list ends exactly at the first go keyword, every token
/// before it is parsed as a move (error if it is none), and the keyword is left in the queue.
/// m1, m2: symbolic 4-byte ASCII tokens; `kw`: one concrete keyword per harness.
pub fn c15_searchmoves(kw: usize) {
    let m1: [u8; 4] = [sym::u8(), sym::u8(), sym::u8(), sym::u8()];
    let m2: [u8; 4] = [sym::u8(), sym::u8(), sym::u8(), sym::u8()];
    let mut i = 0;
    while i < 4 {
        sym::assume(m1[i] > 32 && m1[i] < 127 && m2[i] > 32 && m2[i] < 127);
        i += 1;
    }
    let t1 = unsafe { std::str::from_utf8_unchecked(&m1) };
    let t2 = unsafe { std::str::from_utf8_unchecked(&m2) };
    #[cfg(not(kani))]
    sym::note("tokens", format!("{} {} {}", t1, t2, SPEC_GO_KEYWORDS[kw]));
    // the token queue is built directly (hook): tokenisation of symbolic text is beyond CBMC (see c15_tokens)
    let p = CommandParser::verif_from_tokens(vec![t1, t2, SPEC_GO_KEYWORDS[kw]]);
    let r = p.verif_parse_moves_until_go_token_or_end();
    // reference
    let stop1 = is_spec_keyword(&m1);
    let stop2 = !stop1 && is_spec_keyword(&m2);
    cov!(well_formed(&m1) && well_formed(&m2), "two well-formed moves");
    cov!(stop1, "first token is itself a keyword");
    match &r {
        Ok(v) => {
            if stop1 {
                assert!(v.len() == 0, "C15.6 move list did not stop at a go keyword");
            } else if stop2 {
                assert!(well_formed(&m1) && v.len() == 1, "C15.6 move list did not stop at a go keyword / accepted a non-move");
            } else {
                assert!(well_formed(&m1) && well_formed(&m2) && v.len() == 2, "C15.6 searchmoves list did not end exactly at the go keyword (or accepted a non-move)");
                assert!(v[0].source.shift == sq_index(m1[0], m1[1]) && v[0].target.shift == sq_index(m1[2], m1[3]) && v[1].source.shift == sq_index(m2[0], m2[1]) && v[1].target.shift == sq_index(m2[2], m2[3]), "C15.6 parsed moves differ from the text");
                assert!(p.verif_remaining() == 1, "C15.6 the keyword after the move list was consumed");
            }
        }
        Err(_) => {
            // an error is right exactly when a token before the first keyword is no move
            let bad = (!stop1 && !well_formed(&m1)) || (!stop1 && !stop2 && !well_formed(&m2));
            assert!(bad, "C15.6 well-formed `searchmoves m1 m2 <keyword>` was rejected");
        }
    }
    core::mem::forget(r);
    core::mem::forget(p);
}

/// C15.7: number tokens: `parse_u64` accepts exactly decimal digit strings (optional leading '+') and
/// returns their value; `parse_duration` additionally accepts '-' and clamps negatives to 0 ms.
pub fn c15_numbers() {
    let b: [u8; 5] = [sym::u8(), sym::u8(), sym::u8(), sym::u8(), sym::u8()];
    let len = sym::usize();
    sym::assume(len >= 1 && len <= 5);
    let mut i = 0;
    while i < 5 {
        sym::assume(b[i] > 32 && b[i] < 127);
        i += 1;
    }
    let text = unsafe { std::str::from_utf8_unchecked(&b[..len]) };
    #[cfg(not(kani))]
    sym::note("token", text.to_string());
    // reference: optional sign, then 1.. digits
    let (neg, start) = if b[0] == b'-' { (true, 1) } else if b[0] == b'+' { (false, 1) } else { (false, 0) };
    let mut ok = len > start;
    let mut val: u64 = 0;
    let mut j = 0;
    while j < 5 {
        if j >= start && j < len {
            if b[j] >= b'0' && b[j] <= b'9' { val = val * 10 + (b[j] - b'0') as u64; } else { ok = false; }
        }
        j += 1;
    }
    cov!(ok && neg && val > 0, "negative number");
    cov!(!ok, "not a number");
    let p1 = CommandParser::verif_from_tokens(vec![text]);
    let r1 = p1.verif_parse_u64();
    match &r1 {
        Ok(v) => assert!(ok && !neg && *v == val, "C15.7 parse_u64 accepted a token that is no unsigned decimal number, or returned another value"),
        Err(_) => assert!(!ok || neg, "C15.7 parse_u64 rejected an unsigned decimal number"),
    }
    core::mem::forget(r1);
    core::mem::forget(p1);
    let p2 = CommandParser::verif_from_tokens(vec![text]);
    let r2 = p2.verif_parse_duration_millis();
    match &r2 {
        Ok(ms) => assert!(ok && *ms == (if neg { 0 } else { val as u128 }), "C15.7 parse_duration accepted a non-number or returned another value (negative values clamp to 0 ms)"),
        Err(_) => assert!(!ok, "C15.7 parse_duration rejected a decimal number"),
    }
    core::mem::forget(r2);
    core::mem::forget(p2);
}

/// C15.8: tokenisation: the tokens of a line are the maximal runs of non-space bytes (arbitrary extra
/// spacing); lines of <= 7 symbolic bytes over {letters, space}.
pub fn c15_tokens() {
    let b: [u8; 7] = [sym::u8(), sym::u8(), sym::u8(), sym::u8(), sym::u8(), sym::u8(), sym::u8()];
    let mut i = 0;
    while i < 7 {
        sym::assume(b[i] == b' ' || (b[i] >= b'a' && b[i] <= b'z'));
        i += 1;
    }
    let line = unsafe { std::str::from_utf8_unchecked(&b) };
    #[cfg(not(kani))]
    sym::note("line", format!("{:?}", line));
    let p = CommandParser::new(line);
    // reference: walk the bytes, compare each maximal non-space run with the next token
    let mut pos = 0;
    let mut ntok = 0;
    while pos < 7 {
        if b[pos] == b' ' { pos += 1; continue; }
        let start = pos;
        while pos < 7 && b[pos] != b' ' { pos += 1; }
        let t = p.verif_next();
        assert!(t.is_some() && t.unwrap().as_bytes() == &b[start..pos], "C15.8 token differs from the maximal non-space run of the line");
        ntok += 1;
    }
    cov!(ntok >= 3, "three or more tokens");
    assert!(p.verif_next().is_none(), "C15.8 tokeniser produced an extra token");
    core::mem::forget(p);
}
