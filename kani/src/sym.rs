//! Nondeterminism wrapper.  Under Kani every `sym::*()` value is a solver variable; in a native build
//! (the replayer, `cargo test`) the values are read from a recorded stream: the byte vectors that
//! `cargo kani -Z concrete-playback --concrete-playback=print` prints for a counterexample, in the
//! order of the `kani::any()` calls.  Only primitives are drawn, so that order is identical in both
//! modes.

#[cfg(not(kani))]
use std::cell::RefCell;
#[cfg(not(kani))]
use std::collections::VecDeque;

#[cfg(not(kani))]
thread_local! {
    static STREAM: RefCell<VecDeque<Vec<u8>>> = RefCell::new(VecDeque::new());
    static NOTES: RefCell<Vec<(String, String)>> = RefCell::new(Vec::new());
}

#[cfg(not(kani))]
pub fn load(stream: Vec<Vec<u8>>) {
    STREAM.with(|s| *s.borrow_mut() = stream.into());
    NOTES.with(|n| n.borrow_mut().clear());
}

#[cfg(not(kani))]
pub fn remaining() -> usize {
    STREAM.with(|s| s.borrow().len())
}

/// Human-readable facts about the replayed case (FEN, move, ...), collected during a native run.
#[cfg(not(kani))]
pub fn note(key: &str, value: String) {
    NOTES.with(|n| n.borrow_mut().push((key.to_string(), value)));
}
#[cfg(kani)]
#[inline(always)]
pub fn note(_key: &str, _value: String) {}

#[cfg(not(kani))]
pub fn take_notes() -> Vec<(String, String)> {
    NOTES.with(|n| n.borrow().clone())
}

#[cfg(not(kani))]
fn pop(n: usize) -> Vec<u8> {
    STREAM.with(|s| {
        let v = s.borrow_mut().pop_front();
        match v {
            Some(v) if v.len() == n => v,
            Some(v) => panic!("STREAM_MISMATCH expected {} bytes, got {}", n, v.len()),
            None => panic!("STREAM_EXHAUSTED"),
        }
    })
}

#[cfg(kani)]
#[inline(always)]
pub fn u8() -> u8 { kani::any() }
#[cfg(not(kani))]
pub fn u8() -> u8 { pop(1)[0] }

#[cfg(kani)]
#[inline(always)]
pub fn bool() -> bool { kani::any() }
#[cfg(not(kani))]
pub fn bool() -> bool { pop(1)[0] & 1 == 1 }

#[cfg(kani)]
#[inline(always)]
pub fn u16() -> u16 { kani::any() }
#[cfg(not(kani))]
pub fn u16() -> u16 { let b = pop(2); u16::from_le_bytes([b[0], b[1]]) }

#[cfg(kani)]
#[inline(always)]
pub fn u32() -> u32 { kani::any() }
#[cfg(not(kani))]
pub fn u32() -> u32 { let b = pop(4); u32::from_le_bytes([b[0], b[1], b[2], b[3]]) }

#[cfg(kani)]
#[inline(always)]
pub fn i32() -> i32 { kani::any() }
#[cfg(not(kani))]
pub fn i32() -> i32 { let b = pop(4); i32::from_le_bytes([b[0], b[1], b[2], b[3]]) }

#[cfg(kani)]
#[inline(always)]
pub fn u64() -> u64 { kani::any() }
#[cfg(not(kani))]
pub fn u64() -> u64 { let b = pop(8); u64::from_le_bytes([b[0], b[1], b[2], b[3], b[4], b[5], b[6], b[7]]) }

#[cfg(kani)]
#[inline(always)]
pub fn usize() -> usize { kani::any() }
#[cfg(not(kani))]
pub fn usize() -> usize { let b = pop(8); u64::from_le_bytes([b[0], b[1], b[2], b[3], b[4], b[5], b[6], b[7]]) as usize }

/// A `char` is drawn as a u32 and assumed to be a scalar value (this is also how Kani's own
/// `Arbitrary for char` works).
pub fn char() -> char {
    let v = u32();
    assume(v <= 0x10FFFF && !(v >= 0xD800 && v <= 0xDFFF));
    unsafe { core::char::from_u32_unchecked(v) }
}

#[cfg(kani)]
#[inline(always)]
pub fn assume(c: bool) { kani::assume(c) }
#[cfg(not(kani))]
pub fn assume(c: bool) {
    if !c { panic!("ASSUME_VIOLATED"); }
}

/// Square index 0..63.
pub fn sq() -> u8 {
    let s = u8();
    assume(s < 64);
    s
}

/// Reachability witness.  Under Kani: `kani::cover!` (the driver requires SATISFIED); natively: no-op.
#[macro_export]
macro_rules! cov {
    ($cond:expr, $msg:literal) => {{
        #[cfg(all(kani, not(feature = "nocover")))]
        { kani::cover!($cond, $msg); }
        #[cfg(not(all(kani, not(feature = "nocover"))))]
        { let _ = $cond; }
    }};
}
