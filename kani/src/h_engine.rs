//! C10 (repetition counter, history index, fifty-move threshold), C11 (evaluation symmetry, terminal
//! scores) and C05.3 (mate vs stalemate in the evaluator) through the engine_core hooks.

use crate::cov;
use crate::h_check::{all7, any_full_board, ref_in_check};
use crate::sym;
use inkayaku_board::verif as bverif;
use inkayaku_board::Bitboard;
use inkayaku_engine_core::verif as everif;

// ---- C10.1 repetition counter -------------------------------------------------------------------------

/// Real `ZobristHistory::{set, count_repetitions}`; a window of W+1 consecutive entries at a concrete base
/// index is filled with free 64-bit values, start = base+W, half-move clock free in 0..=HMAX.
/// Reference: the current position counts once; an earlier entry at distance d counts iff d is even,
/// d >= 4, d <= half-move clock (no capture/pawn move in between) and the hashes are equal.  d = 2 cannot
/// be a repetition in chess (both sides would have had to pass) - the code skips it and so does the
/// reference.  Asserted: (count >= 3) <=> (reference >= 3), which is all the search uses.
pub fn c10_rep<const W: usize>(base: u16, hmax: u16) {
    let mut h = everif::History::new();
    let mut vals = [0u64; 128];
    let mut i = 0;
    while i <= W {
        vals[i] = sym::u64();
        h.set(base + i as u16, vals[i]);
        i += 1;
    }
    let start = base + W as u16;
    let half = sym::u16();
    sym::assume(half <= hmax);
    #[cfg(not(kani))]
    sym::note("history", format!("base={} window={:x?} start={} halfmove_clock={}", base, &vals[..=W], start, half));
    let got = h.count_repetitions(start, half);
    let mut occ = 1usize;
    let mut d = 4usize;
    while d <= W {
        if d <= half as usize && d <= start as usize && vals[W - d] == vals[W] { occ += 1; }
        d += 2;
    }
    cov!(occ == 2, "exactly two occurrences");
    cov!(occ >= 3, "three or more occurrences");
    cov!(W < 8 || (occ >= 3 && half as usize == W), "third occurrence at the edge of the window");
    assert!((got >= 3) == (occ >= 3), "C10.1 count_repetitions >= 3 disagrees with the number of occurrences of the position");
}

// ---- C10.2 history index -------------------------------------------------------------------------------

/// `ply_clock()` must be a valid, injective index into the 5000-entry history for every full-move number.
pub fn c10_index(max_full: u32) {
    let full = sym::u32();
    sym::assume(full >= 1 && full <= max_full);
    let turn = sym::u32();
    sym::assume(turn < 2);
    #[cfg(not(kani))]
    sym::note("position", format!("fullmove_number={} side_to_move={}", full, if turn == 0 { "w" } else { "b" }));
    let mut w = [0u64; 7];
    let mut b = [0u64; 7];
    w[6] = 1u64 << 60;
    b[6] = 1u64 << 4;
    let bb = Bitboard { white: bverif::player_state(w, false, false), black: bverif::player_state(b, false, false), turn, en_passant_square_shift: 0, fullmove_clock: full, halfmove_clock: 0 };
    let ply = bb.ply_clock();
    cov!(full > 2000, "full-move number above 2000");
    assert!(ply as u64 == 2 * (full as u64 - 1) + turn as u64, "C10.2 ply index aliases (truncation): two different plies share one history slot");
    assert!((ply as usize) < 5000, "C10.2 ply index outside the 5000-entry history (set/count_repetitions would panic)");
    let mut h = everif::History::new();
    h.set(ply, 1);
}

// ---- bounded boards for the evaluator ------------------------------------------------------------------

pub fn any_side(maxn: u32) -> [u64; 7] {
    any_side_kinds(maxn, 0b111110)
}

/// kinds: bit k set = pieces of kind k (1 = pawn .. 5 = queen) may be present
pub fn any_side_kinds(maxn: u32, kinds: u32) -> [u64; 7] {
    let mut a: [u64; 7] = [0, sym::u64(), sym::u64(), sym::u64(), sym::u64(), sym::u64(), sym::u64()];
    // (no loop: the harness-wide unwind bound is sized for the evaluator's popcount loops)
    if kinds & (1 << 1) == 0 { a[1] = 0; }
    if kinds & (1 << 2) == 0 { a[2] = 0; }
    if kinds & (1 << 3) == 0 { a[3] = 0; }
    if kinds & (1 << 4) == 0 { a[4] = 0; }
    if kinds & (1 << 5) == 0 { a[5] = 0; }
    sym::assume(a[1].count_ones() <= maxn && a[2].count_ones() <= maxn && a[3].count_ones() <= maxn && a[4].count_ones() <= maxn && a[5].count_ones() <= maxn);
    sym::assume(a[6].count_ones() == 1);
    sym::assume(a[1] & a[2] == 0 && (a[1] | a[2]) & a[3] == 0 && (a[1] | a[2] | a[3]) & a[4] == 0 && (a[1] | a[2] | a[3] | a[4]) & a[5] == 0 && (a[1] | a[2] | a[3] | a[4] | a[5]) & a[6] == 0);
    a
}

fn flipv(a: &[u64; 7]) -> [u64; 7] {
    [0, a[1].swap_bytes(), a[2].swap_bytes(), a[3].swap_bytes(), a[4].swap_bytes(), a[5].swap_bytes(), a[6].swap_bytes()]
}

// ---- C10.3 fifty-move threshold ------------------------------------------------------------------------

pub fn c10_fifty() {
    let w = any_side(1);
    let b = any_side(1);
    sym::assume(all7(&w) & all7(&b) == 0);
    let turn = sym::u32();
    sym::assume(turn < 2);
    let half = sym::u32();
    sym::assume(half <= 150);
    let full = sym::u32();
    sym::assume(full >= 1 && full < 100000);
    let p = Bitboard { white: bverif::player_state(w, false, false), black: bverif::player_state(b, false, false), turn, en_passant_square_shift: 0, fullmove_clock: full, halfmove_clock: half };
    #[cfg(not(kani))]
    sym::note("position", crate::native_util::describe(&p));
    let e = everif::evaluate(&p, true);
    let ongoing = everif::evaluate_ongoing(&p);
    cov!(half < 100 && ongoing != everif::draw_score(), "clock below 100 with a non-draw static evaluation");
    cov!(half >= 50 && half < 100 && ongoing != everif::draw_score(), "clock in 50..99 with a non-draw static evaluation");
    if half < 100 {
        assert!(e == ongoing, "C10.3 position valued as a fifty-move draw before 100 plies without capture or pawn move");
    } else {
        assert!(e == everif::draw_score(), "C10.3 position with half-move clock >= 100 not valued as a draw");
    }
}

// ---- C11 -----------------------------------------------------------------------------------------------

/// C11.1: BLACK_TABLES = vertical mirror of WHITE_TABLES with flipped sign.
pub fn c11_tables() {
    let stage = sym::usize();
    sym::assume(stage < 3);
    let piece = sym::usize();
    sym::assume(piece >= 1 && piece <= 6);
    let s = sym::usize();
    sym::assume(s < 64);
    #[cfg(not(kani))]
    sym::note("entry", format!("stage={} piece={} square={}", stage, piece, s));
    assert!(everif::psq(1, stage, piece, s ^ 56) == -everif::psq(0, stage, piece, s), "C11.1 black piece-square table is not the sign-flipped vertical mirror of the white table");
}

fn flip_board(p: &Bitboard, w: &[u64; 7], b: &[u64; 7]) -> Bitboard {
    Bitboard {
        white: bverif::player_state(flipv(b), p.black.queen_side_castle, p.black.king_side_castle),
        black: bverif::player_state(flipv(w), p.white.queen_side_castle, p.white.king_side_castle),
        turn: 1 - p.turn,
        en_passant_square_shift: if p.en_passant_square_shift == 0 { 0 } else { p.en_passant_square_shift ^ 56 },
        fullmove_clock: p.fullmove_clock,
        halfmove_clock: p.halfmove_clock,
    }
}

/// C11.2: the game stage is colour-symmetric, on fully symbolic boards.
pub fn c11_stage() {
    let (p, w, b) = any_full_board();
    let f = flip_board(&p, &w, &b);
    cov!(everif::game_stage(&p) == inkayaku_board::constants::MID, "middle-game stage");
    cov!(everif::game_stage(&p) == inkayaku_board::constants::LATE, "late stage");
    assert!(everif::game_stage(&p) == everif::game_stage(&f), "C11.2 game stage differs between a position and its colour-flipped twin");
}

/// C11.2b: material count is colour-symmetric and linear (fully symbolic sides).
pub fn c11_material() {
    let (p, w, b) = any_full_board();
    let f = flip_board(&p, &w, &b);
    assert!(everif::piece_value(&p.white) == everif::piece_value(&f.black) && everif::piece_value(&p.black) == everif::piece_value(&f.white), "C11.2 material value differs between a side and its colour-flipped twin");
}

/// C11.3: evaluate(flip P) == -evaluate(P) on boards with the kings and at most `maxn` pieces of each
/// kind per side on arbitrary squares, clocks free.
pub fn c11_eval(maxn: u32, kinds: u32) {
    let w = any_side_kinds(maxn, kinds);
    let b = any_side_kinds(maxn, kinds);
    sym::assume(all7(&w) & all7(&b) == 0);
    let turn = sym::u32();
    sym::assume(turn < 2);
    let half = sym::u32();
    let full = sym::u32();
    sym::assume(full < 100000);
    let p = Bitboard { white: bverif::player_state(w, sym::bool(), sym::bool()), black: bverif::player_state(b, sym::bool(), sym::bool()), turn, en_passant_square_shift: 0, fullmove_clock: full, halfmove_clock: half };
    let f = flip_board(&p, &w, &b);
    #[cfg(not(kani))]
    {
        sym::note("position", crate::native_util::describe(&p));
        sym::note("flipped", crate::native_util::describe(&f));
    }
    cov!((all7(&w) | all7(&b)).count_ones() >= 6, "six or more pieces");
    cov!(everif::evaluate(&p, true) != 0, "non-zero evaluation");
    assert!(everif::evaluate(&f, true) == -everif::evaluate(&p, true), "C11.3 static evaluation of the colour-flipped twin is not the negation");
}

/// C11.3 (mover's view): the search multiplies the white-centric evaluation by `calculate_heuristic_factor`;
/// with factor(white) = 1 and factor(black) = -1 the mover's-view value of flip(P) equals that of P by
/// c11_eval (factor(1-t) * -e = factor(t) * e).  (A direct harness multiplying two symbolic values took
/// 24 minutes; the lemma is exact because the factor has only two arguments.)
pub fn c11_factor() {
    assert!(everif::heuristic_factor(0) == 1 && everif::heuristic_factor(1) == -1, "C11.3 heuristic factor is not +1 for white / -1 for black");
}

/// C05.3 + C11.4: terminal scores on fully symbolic boards.  No legal move and in check => a losing mate
/// score for the side to move (from its own point of view), later mates less bad; not in check => the
/// draw score; the two are never confused.
pub fn c11_terminal() {
    let (bb, w, b) = any_full_board();
    let occ = all7(&w) | all7(&b);
    let in_check = if bb.turn == 0 { ref_in_check(w[6], occ, &b, 0) } else { ref_in_check(b[6], occ, &w, 1) };
    let v = everif::heuristic_factor(bb.turn) * everif::evaluate(&bb, false);
    cov!(in_check && bb.turn == 0, "white checkmated");
    cov!(in_check && bb.turn == 1, "black checkmated");
    cov!(!in_check, "stalemate");
    if in_check {
        assert!(v == -everif::win_score() + bb.fullmove_clock as i32, "C11.4 checkmated side to move does not get the losing mate score");
        assert!(v < 0 && everif::is_checkmate(v) && everif::is_checkmate(-v), "C11.4 mate score not recognised as a mate score");
        let (m, _) = everif::score_from_value(v, &bb);
        assert!(m.is_some() && m.unwrap() <= 0, "C11.4 losing mate value not reported as a non-positive mate distance");
    } else {
        assert!(v == everif::draw_score(), "C05.3 stalemate not valued as a draw");
        assert!(!everif::is_checkmate(v), "C05.3 stalemate value classified as checkmate");
        let (m, s) = everif::score_from_value(v, &bb);
        assert!(m.is_none() && s == everif::draw_score(), "C05.3 stalemate reported as a mate score");
    }
}

/// C11.4 (distance): root position with side `turn` at full-move F; a checkmate node reached at full-move
/// G.  The value seen from the root mover and its `score_from_value` rendering: the mating side gets
/// `mate +n`, the mated side `mate -n`, n = number of moves of the mating side; nearer mates score
/// strictly better for the winner, later ones strictly better for the loser.
pub fn c11_mate_distance() {
    let turn = sym::u32();
    sym::assume(turn < 2);
    let f = sym::u32();
    sym::assume(f >= 1 && f < 90000);
    let mut kw = [0u64; 7];
    let mut kb = [0u64; 7];
    kw[6] = 1u64 << 60;
    kb[6] = 1u64 << 4;
    let mut root = Bitboard { white: bverif::player_state(kw, false, false), black: bverif::player_state(kb, false, false), turn, en_passant_square_shift: 0, fullmove_clock: f, halfmove_clock: 0 };
    #[cfg(not(kani))]
    sym::note("root", format!("side_to_move={} fullmove_number={}", if turn == 0 { "w" } else { "b" }, f));
    let n = sym::u32(); // number of moves made by the mating side
    sym::assume(n >= 1 && n <= 500);
    let root_wins = sym::bool();
    // full-move number at the mate node (side to move there is the mated side)
    let mated_side = if root_wins { 1 - root.turn } else { root.turn };
    let winner = 1 - mated_side;
    // the winner's k-th move from the root happens at full-move number f + k - 1 (+1 if the winner is
    // white and the root mover is black: white's first move comes after black's, in the next full move)
    let first_winner_move_full = if winner == 0 && root.turn == 1 { f + 1 } else { f };
    let mating_move_full = first_winner_move_full + n - 1;
    // after a black move the counter increments
    let g = if winner == 1 { mating_move_full + 1 } else { mating_move_full };
    let node_white_centric = if mated_side == 0 { everif::loss_score() + g as i32 } else { everif::win_score() - g as i32 };
    let v = everif::heuristic_factor(root.turn) * node_white_centric;
    root.halfmove_clock = 0;
    let (m, _) = everif::score_from_value(v, &root);
    cov!(root_wins && root.turn == 1, "black root mates");
    cov!(!root_wins && root.turn == 0, "white root gets mated");
    assert!(everif::is_checkmate(v), "C11.4 mate value not recognised as mate");
    assert!((v > 0) == root_wins, "C11.4 mate value has the wrong sign for the root mover");
    assert!(m == Some(if root_wins { n as i32 } else { -(n as i32) }), "C11.4 reported mate distance differs from the number of moves to mate");
    // monotonicity: a mate one move later
    let g2 = g + 1;
    let node2 = if mated_side == 0 { everif::loss_score() + g2 as i32 } else { everif::win_score() - g2 as i32 };
    let v2 = everif::heuristic_factor(root.turn) * node2;
    assert!(if root_wins { v2 < v } else { v2 > v }, "C11.4 nearer mates do not score better than farther ones");
}
