//! Validation of the mailbox oracle (src/refchess.rs), independent of the repository's implementation:
//! perft counts from the 7 roots of the repository's own perft suite must equal the published numbers.
//! The constants are facts of chess (chessprogramming.org perft results), not of this code base.

use ivk::refchess::native::*;

const ROOTS: [(&str, &[u64]); 7] = [
    ("rnbqkbnr/pppppppp/8/8/8/8/PPPPPPPP/RNBQKBNR w KQkq - 0 1", &[20, 400, 8_902, 197_281]),
    ("r3k2r/p1ppqpb1/bn2pnp1/3PN3/1p2P3/2N2Q1p/PPPBBPPP/R3K2R w KQkq -", &[48, 2_039, 97_862, 4_085_603]),
    ("8/2p5/3p4/KP5r/1R3p1k/8/4P1P1/8 w - -", &[14, 191, 2_812, 43_238, 674_624]),
    ("r3k2r/Pppp1ppp/1b3nbN/nP6/BBP1P3/q4N2/Pp1P2PP/R2Q1RK1 w kq - 0 1", &[6, 264, 9_467, 422_333]),
    ("r2q1rk1/pP1p2pp/Q4n2/bbp1p3/Np6/1B3NBn/pPPP1PPP/R3K2R b KQ - 0 1", &[6, 264, 9_467, 422_333]),
    ("rnbq1k1r/pp1Pbppp/2p5/8/2B5/8/PPP1NnPP/RNBQK2R w KQ - 1 8", &[44, 1_486, 62_379, 2_103_487]),
    ("r4rk1/1pp1qppp/p1np1n2/2b1p1B1/2B1P1b1/P1NP1N2/1PP1QPPP/R4RK1 w - - 0 10", &[46, 2_079, 89_890, 3_894_594]),
];

fn depth_limit() -> usize {
    std::env::var("ORACLE_PERFT_DEPTH").ok().and_then(|s| s.parse().ok()).unwrap_or(3)
}

#[test]
fn oracle_perft_matches_published_numbers() {
    let lim = depth_limit();
    for (fen, expect) in ROOTS {
        let pos = from_fen(fen).expect("fen");
        assert_eq!(to_fen(&from_fen(&to_fen(&pos)).unwrap()), to_fen(&pos));
        for (i, &n) in expect.iter().enumerate().take(lim) {
            assert_eq!(perft(&pos, (i + 1) as u32), n, "oracle perft({}) from {}", i + 1, fen);
        }
    }
}

/// Informational cross-check of the oracle's move *sets* and successors against the implementation on the
/// same trees (testing, not a solver verdict; see DESIGN.md 1.3).  Prints disagreements, never fails.
#[test]
fn cross_check_against_implementation_is_informational() {
    use inkayaku_board::Bitboard;
    use ivk::refchess::apply;
    let mut notes = 0;
    fn walk(pos: &ivk::refchess::Pos, depth: u32, notes: &mut usize) {
        let fen = to_fen(pos);
        let mut bb = match Bitboard::from_fen_string(&fen) { Ok(b) => b, Err(_) => { *notes += 1; println!("NOTE implementation rejects FEN {}", fen); return; } };
        let mut theirs: Vec<String> = bb.generate_legal_moves().iter().map(|m| m.to_uci_string()).collect();
        let keys = legal_keys(pos);
        let mut ours: Vec<String> = keys.iter().map(|&(f, t, p)| uci(f, t, p)).collect();
        theirs.sort();
        ours.sort();
        if theirs != ours {
            *notes += 1;
            println!("NOTE legal move sets differ at {}: implementation {:?} oracle {:?}", fen, theirs, ours);
            return;
        }
        if depth == 0 { return; }
        for (f, t, p) in keys {
            let n = apply(pos, f, t, p);
            let mut b2 = Bitboard::from_fen_string(&fen).unwrap();
            if b2.make_uci(&uci(f, t, p)).is_err() || ivk::native_util::describe(&b2) != to_fen(&n) {
                *notes += 1;
                println!("NOTE successor differs at {} move {}: implementation {} oracle {}", fen, uci(f, t, p), ivk::native_util::describe(&b2), to_fen(&n));
                continue;
            }
            walk(&n, depth - 1, notes);
        }
    }
    for (fen, _) in ROOTS {
        walk(&from_fen(fen).unwrap(), 2, &mut notes);
    }
    println!("cross-check notes: {}", notes);
}
