#!/usr/bin/env python3
"""C04 second opinion (thorough tier): the real magic constants and tables, read out of the compiled crate
by `dump_magics`, re-encoded in SMT-LIB2 and decided by z3 and cvc5.

Per (kind, square) one query over a free 64-bit occupancy:
    idx  = ((occ & mask) * magic >> shift) & hash_mask          (bit-vector semantics, wrapping multiply)
    got  = table[idx]        (table as an SMT array: constant-array default + one store per entry)
    ref  = ray attacks       (per ray square t: bit t set iff every square strictly between is empty)
    assert  idx >= len(table)  OR  got != ref
`unsat` from both solvers = the lookup equals the ray attacks for all 2^64 occupancies and never leaves
the table.  A `sat` answer is turned into the concrete occupancy and printed.  Any `(error` line, `unknown`
or time-out is inconclusive.

usage: c04_smt.py <dump.jsonl> <out.json> [--jobs N] [--timeout S]
"""
import json
import os
import subprocess
import sys
import time
from concurrent.futures import ThreadPoolExecutor

DIRS = {"rook": [(1, 0), (-1, 0), (0, 1), (0, -1)], "bishop": [(1, 1), (-1, 1), (1, -1), (-1, -1)]}


def bv(v, w=64):
    return f"(_ bv{v} {w})"


def encode(entry):
    kind, sq = entry["kind"], entry["square"]
    table = entry["table"]
    n = len(table)
    bits = max(1, (n - 1).bit_length())
    out = ["(set-logic ALL)", "(set-option :produce-models true)", "(declare-const occ (_ BitVec 64))"]
    out.append(f"(define-fun idx () (_ BitVec 64) (bvand (bvlshr (bvmul (bvand occ {bv(entry['mask'])}) {bv(entry['magic'])}) {bv(entry['hash_shift'])}) {bv(entry['hash_mask'])}))")
    # table as array over `bits` index bits
    arr = f"((as const (Array (_ BitVec {bits}) (_ BitVec 64))) {bv(0)})"
    out.append(f"(declare-const T (Array (_ BitVec {bits}) (_ BitVec 64)))")
    for i, v in enumerate(table):
        out.append(f"(assert (= (select T {bv(i, bits)}) {bv(v)}))")
    # reference
    f0, r0 = sq % 8, sq // 8
    terms = []
    for df, dr in DIRS[kind]:
        between = 0
        f, r = f0 + df, r0 + dr
        while 0 <= f < 8 and 0 <= r < 8:
            t = r * 8 + f
            terms.append(f"(ite (= (bvand occ {bv(between)}) {bv(0)}) {bv(1 << t)} {bv(0)})")
            between |= 1 << t
            f += df
            r += dr
    ref = terms[0]
    for t in terms[1:]:
        ref = f"(bvor {ref} {t})"
    out.append(f"(define-fun ref () (_ BitVec 64) {ref})")
    out.append(f"(assert (or (bvuge idx {bv(n)}) (distinct (select T ((_ extract {bits - 1} 0) idx)) ref)))")
    out.append("(check-sat)")
    out.append("(get-value (occ))")
    return "\n".join(out) + "\n"


SOLVERS = {"z3": ["/usr/bin/z3", "-smt2"], "cvc5": ["cvc5", "--lang", "smt2", "--produce-models", "--bv-solver=bitblast-internal"]}


def run_one(args):
    entry, workdir, timeout = args
    name = f"{entry['kind']}_{entry['square']}"
    path = os.path.join(workdir, name + ".smt2")
    open(path, "w").write(encode(entry))
    res = {"query": name, "entries": len(entry["table"])}
    for sname, cmd in SOLVERS.items():
        t0 = time.time()
        try:
            p = subprocess.run(cmd + [path], stdout=subprocess.PIPE, stderr=subprocess.STDOUT, text=True, timeout=timeout)
            out = p.stdout
        except subprocess.TimeoutExpired:
            out = "timeout"
        lines = out.strip().splitlines()
        first = lines[0].strip() if lines else ""
        if first == "unsat":
            verdict = "unsat"      # the (get-value) after unsat legitimately prints an error; nothing before it may
        elif first == "sat":
            verdict = "sat"
            res[sname + "_model"] = " ".join(lines[1:4])
        else:
            verdict = "inconclusive"   # error line, unknown, time-out
            res[sname + "_output"] = out[:300]
        res[sname] = verdict
        res[sname + "_s"] = round(time.time() - t0, 2)
    return res


def main():
    dump, outp = sys.argv[1], sys.argv[2]
    jobs = 16
    timeout = 600
    a = sys.argv[3:]
    for i, x in enumerate(a):
        if x == "--jobs":
            jobs = int(a[i + 1])
        if x == "--timeout":
            timeout = int(a[i + 1])
    entries = [json.loads(l) for l in open(dump) if l.strip()]
    workdir = os.path.join(os.path.dirname(outp), "c04_smt")
    os.makedirs(workdir, exist_ok=True)
    with ThreadPoolExecutor(max_workers=jobs) as ex:
        results = list(ex.map(run_one, [(e, workdir, timeout) for e in entries]))
    json.dump(results, open(outp, "w"), indent=1)
    bad = [r for r in results if r["z3"] != "unsat" or r["cvc5"] != "unsat"]
    print(f"c04_smt: {len(results)} queries, {len(results) - len(bad)} unsat by both solvers, {len(bad)} not")
    for r in bad[:10]:
        print("  ", json.dumps(r)[:400])
    return 0 if not bad else (1 if any(r["z3"] == "sat" or r["cvc5"] == "sat" for r in bad) else 2)


if __name__ == "__main__":
    sys.exit(main())
