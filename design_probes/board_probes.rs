#![allow(dead_code)]
#![feature(allocator_api)]
extern crate alloc;
pub mod refchess;

use inkayaku_board::{Bitboard, Move};
use inkayaku_board::verif;
use refchess::*;

fn ray(square: u32, occ: u64, df: i32, dr: i32) -> u64 {
    let mut f = (square % 8) as i32 + df;
    let mut r = (square / 8) as i32 + dr;
    let mut res = 0u64;
    let mut step = 0;
    while step < 7 && f >= 0 && f < 8 && r >= 0 && r < 8 {
        let m = 1u64 << (r * 8 + f);
        res |= m;
        if occ & m != 0 { break; }
        f += df;
        r += dr;
        step += 1;
    }
    res
}
pub fn rook_ref(square: u32, occ: u64) -> u64 {
    ray(square, occ, 1, 0) | ray(square, occ, -1, 0) | ray(square, occ, 0, 1) | ray(square, occ, 0, -1)
}
pub fn bishop_ref(square: u32, occ: u64) -> u64 {
    ray(square, occ, 1, 1) | ray(square, occ, -1, 1) | ray(square, occ, 1, -1) | ray(square, occ, -1, -1)
}

pub fn to_bitboard(pos: &Pos, list: &[u8; 8], n: usize) -> Bitboard {
    let mut w = [0u64; 7];
    let mut b = [0u64; 7];
    let mut j = 0;
    while j < n && j < 8 {
        let i = list[j] as usize;
        let p = pos.sq[i];
        if color(p) == 0 { w[kind(p) as usize] |= 1u64 << i; } else { b[kind(p) as usize] |= 1u64 << i; }
        j += 1;
    }
    Bitboard {
        white: verif::player_state(w, pos.wq, pos.wk),
        black: verif::player_state(b, pos.bq, pos.bk),
        turn: pos.turn as u32,
        en_passant_square_shift: pos.ep as u32,
        fullmove_clock: pos.full,
        halfmove_clock: pos.half,
    }
}

pub fn move_key(mv: &Move) -> (u8, u8, u8) {
    (mv.get_source_square() as u8, mv.get_target_square() as u8, mv.get_promotion_piece() as u8)
}

/// number of pseudo-legal moves by the reference, enumerated from the piece list
pub fn ref_count_from(pos: &Pos, from: u8) -> u32 {
    let mut n = 0u32;
    let mut to = 0u8;
    while to < 64 {
        if pseudo_legal(pos, from, to, 0) { n += 1; }
        if pseudo_legal(pos, from, to, Q) { n += 4; }
        to += 1;
    }
    n
}

#[cfg(kani)]
mod proofs {
    use super::*;

    fn any_sq() -> u8 { let s: u8 = kani::any(); kani::assume(s < 64); s }

    /// two kings + NX optional extra pieces on distinct squares
    fn any_pos<const NX: usize>() -> (Pos, [u8; 8], usize) {
        let mut sq = [EMPTY; 64];
        let mut list = [64u8; 8];
        let wk = any_sq();
        let bk = any_sq();
        kani::assume(wk != bk);
        sq[wk as usize] = mk(K, 0);
        sq[bk as usize] = mk(K, 1);
        list[0] = wk; list[1] = bk;
        let mut n = 2;
        let mut i = 0;
        while i < NX {
            let present: bool = kani::any();
            if present {
                let s = any_sq();
                kani::assume(sq[s as usize] == EMPTY);
                let k: u8 = kani::any();
                kani::assume(k >= P && k <= Q);
                let c: u8 = kani::any();
                kani::assume(c < 2);
                if k == P { kani::assume(s >= 8 && s < 56); }
                sq[s as usize] = mk(k, c);
                list[n] = s;
                n += 1;
            }
            i += 1;
        }
        let turn: u8 = kani::any();
        kani::assume(turn < 2);
        let (wkc, wqc, bkc, bqc): (bool, bool, bool, bool) = (kani::any(), kani::any(), kani::any(), kani::any());
        kani::assume(!wkc || (sq[60] == mk(K, 0) && sq[63] == mk(R, 0)));
        kani::assume(!wqc || (sq[60] == mk(K, 0) && sq[56] == mk(R, 0)));
        kani::assume(!bkc || (sq[4] == mk(K, 1) && sq[7] == mk(R, 1)));
        kani::assume(!bqc || (sq[4] == mk(K, 1) && sq[0] == mk(R, 1)));
        let ep: u8 = kani::any();
        if ep != 0 {
            if turn == 0 {
                kani::assume(ep >= 16 && ep < 24);
                kani::assume(sq[ep as usize] == EMPTY && sq[(ep - 8) as usize] == EMPTY && sq[(ep + 8) as usize] == mk(P, 1));
            } else {
                kani::assume(ep >= 40 && ep < 48);
                kani::assume(sq[ep as usize] == EMPTY && sq[(ep + 8) as usize] == EMPTY && sq[(ep - 8) as usize] == mk(P, 0));
            }
        }
        let half: u32 = kani::any();
        kani::assume(half < 4096);
        let full: u32 = kani::any();
        kani::assume(full >= 1 && full < 100000);
        let pos = Pos { sq, turn, wk: wkc, wq: wqc, bk: bkc, bq: bqc, ep, half, full };
        // side not to move must not be in check
        kani::assume(!attacked(&pos, if turn == 0 { bk } else { wk }, turn));
        (pos, list, n)
    }

    #[kani::proof]
    #[kani::unwind(9)]
    fn movegen_sound_1() {
        let (pos, list, n) = any_pos::<1>();
        let bb = to_bitboard(&pos, &list, n);
        let mut buf: Vec<Move> = Vec::with_capacity(256);
        bb.generate_pseudo_legal_moves_with_buffer(&mut buf);
        let i: usize = kani::any();
        kani::assume(i < buf.len());
        let (f, t, p) = move_key(&buf[i]);
        assert!(pseudo_legal(&pos, f, t, p));
        let j: usize = kani::any();
        kani::assume(j < buf.len() && j != i);
        assert!(move_key(&buf[j]) != (f, t, p));
    }

    #[kani::proof]
    #[kani::unwind(9)]
    fn movegen_kings_only() {
        let (pos, list, n) = any_pos::<0>();
        let bb = to_bitboard(&pos, &list, n);
        let mut buf: Vec<Move> = Vec::with_capacity(16);
        bb.generate_pseudo_legal_moves_with_buffer(&mut buf);
        let i: usize = kani::any();
        kani::assume(i < buf.len());
        let (f, t, p) = move_key(&buf[i]);
        assert!(pseudo_legal(&pos, f, t, p));
    }

    #[kani::proof]
    #[kani::unwind(9)]
    fn movegen_concrete() {
        let mut sq = [EMPTY; 64];
        sq[60] = mk(K, 0); sq[4] = mk(K, 1); sq[35] = mk(Q, 0);
        let pos = Pos { sq, turn: 0, wk: false, wq: false, bk: false, bq: false, ep: 0, half: 0, full: 1 };
        let list = [60, 4, 35, 64, 64, 64, 64, 64];
        let bb = to_bitboard(&pos, &list, 3);
        let mut buf: Vec<Move> = Vec::with_capacity(64);
        bb.generate_pseudo_legal_moves_with_buffer(&mut buf);
        let i: usize = kani::any();
        kani::assume(i < buf.len());
        let (f, t, p) = move_key(&buf[i]);
        assert!(pseudo_legal(&pos, f, t, p));
    }

    // ---- observer stub for Vec::push -------------------------------------------------
    static mut Q_KEY: (u8, u8, u8) = (0, 0, 0);
    static mut Q_MATCHES: u32 = 0;
    static mut Q_TOTAL: u32 = 0;
    static mut Q_LAST: Move = Move { bits: 0, mvvlva: 0 };

    fn push_observer<T, A: std::alloc::Allocator>(_v: &mut Vec<T, A>, value: T) {
        assert!(core::mem::size_of::<T>() == core::mem::size_of::<Move>());
        let mv: Move = unsafe { core::mem::transmute_copy(&value) };
        core::mem::forget(value);
        unsafe {
            Q_TOTAL += 1;
            if move_key(&mv) == Q_KEY {
                Q_MATCHES += 1;
                Q_LAST = mv;
            }
        }
    }

    fn magics_model(this: &verif::Magics, square: u32, occ: u64) -> u64 {
        if verif::is_rook_magics(this) { rook_ref(square, occ) } else { bishop_ref(square, occ) }
    }

    fn obs_body<const NX: usize>() {
        let (pos, list, n) = any_pos::<NX>();
        let bb = to_bitboard(&pos, &list, n);
        let qf = any_sq(); let qt = any_sq(); let qp: u8 = kani::any();
        kani::assume(qp == 0 || (qp >= N && qp <= Q));
        unsafe { Q_KEY = (qf, qt, qp); Q_MATCHES = 0; Q_TOTAL = 0; }
        let mut buf: Vec<Move> = Vec::new();
        bb.generate_pseudo_legal_moves_with_buffer(&mut buf);
        let m = unsafe { Q_MATCHES };
        assert!(m <= 1);
        assert_eq!(m == 1, pseudo_legal(&pos, qf, qt, qp));
    }

    #[kani::proof]
    #[kani::unwind(9)]
    #[kani::stub(std::vec::Vec::push, push_observer)]
    #[kani::stub(<[inkayaku_board::verif::MagicConfiguration; 64] as inkayaku_board::verif::UnsafeMagicsExt>::get_attacks, magics_model)]
    fn movegen_obs_0() { obs_body::<0>() }

    #[kani::proof]
    #[kani::unwind(9)]
    #[kani::stub(std::vec::Vec::push, push_observer)]
    #[kani::stub(<[inkayaku_board::verif::MagicConfiguration; 64] as inkayaku_board::verif::UnsafeMagicsExt>::get_attacks, magics_model)]
    fn movegen_obs_1() { obs_body::<1>() }

    #[kani::proof]
    #[kani::unwind(9)]
    #[kani::stub(std::vec::Vec::push, push_observer)]
    #[kani::stub(<[inkayaku_board::verif::MagicConfiguration; 64] as inkayaku_board::verif::UnsafeMagicsExt>::get_attacks, magics_model)]
    fn movegen_obs_2() { obs_body::<2>() }

    #[kani::proof]
    #[kani::unwind(9)]
    #[kani::stub(std::vec::Vec::push, push_observer)]
    #[kani::stub(<[inkayaku_board::verif::MagicConfiguration; 64] as inkayaku_board::verif::UnsafeMagicsExt>::get_attacks, magics_model)]
    fn movegen_obs_3() { obs_body::<3>() }

    /// two kings + optional extra pieces of CONCRETE kinds on symbolic distinct squares, symbolic colours
    fn any_pos_kinds(kinds: &[u8], turn: u8) -> (Pos, Bitboard) {
        let mut sq = [EMPTY; 64];
        let mut w = [0u64; 7];
        let mut b = [0u64; 7];
        let wk = any_sq();
        let bk = any_sq();
        kani::assume(wk != bk);
        sq[wk as usize] = mk(K, 0);
        sq[bk as usize] = mk(K, 1);
        w[K as usize] = 1u64 << wk;
        b[K as usize] = 1u64 << bk;
        let mut i = 0;
        while i < kinds.len() {
            let k = kinds[i];
            let present: bool = kani::any();
            if present {
                let s = any_sq();
                kani::assume(sq[s as usize] == EMPTY);
                let c: u8 = kani::any();
                kani::assume(c < 2);
                if k == P { kani::assume(s >= 8 && s < 56); }
                sq[s as usize] = mk(k, c);
                if c == 0 { w[k as usize] |= 1u64 << s; } else { b[k as usize] |= 1u64 << s; }
            }
            i += 1;
        }
        let has_rook = kinds.contains(&R);
        let has_pawn = kinds.contains(&P);
        let (wkc, wqc, bkc, bqc): (bool, bool, bool, bool) = if has_rook { (kani::any(), kani::any(), kani::any(), kani::any()) } else { (false, false, false, false) };
        kani::assume(!wkc || (sq[60] == mk(K, 0) && sq[63] == mk(R, 0)));
        kani::assume(!wqc || (sq[60] == mk(K, 0) && sq[56] == mk(R, 0)));
        kani::assume(!bkc || (sq[4] == mk(K, 1) && sq[7] == mk(R, 1)));
        kani::assume(!bqc || (sq[4] == mk(K, 1) && sq[0] == mk(R, 1)));
        let ep: u8 = if has_pawn { kani::any() } else { 0 };
        if ep != 0 {
            if turn == 0 {
                kani::assume(ep >= 16 && ep < 24);
                kani::assume(sq[ep as usize] == EMPTY && sq[(ep - 8) as usize] == EMPTY && sq[(ep + 8) as usize] == mk(P, 1));
            } else {
                kani::assume(ep >= 40 && ep < 48);
                kani::assume(sq[ep as usize] == EMPTY && sq[(ep + 8) as usize] == EMPTY && sq[(ep - 8) as usize] == mk(P, 0));
            }
        }
        let half: u32 = kani::any();
        kani::assume(half < 4096);
        let full: u32 = kani::any();
        kani::assume(full >= 1 && full < 100000);
        let pos = Pos { sq, turn, wk: wkc, wq: wqc, bk: bkc, bq: bqc, ep, half, full };
        kani::assume(!attacked(&pos, if turn == 0 { bk } else { wk }, turn));
        let bb = Bitboard {
            white: verif::player_state(w, wqc, wkc),
            black: verif::player_state(b, bqc, bkc),
            turn: turn as u32,
            en_passant_square_shift: ep as u32,
            fullmove_clock: full,
            halfmove_clock: half,
        };
        (pos, bb)
    }

    fn obsk_body(kinds: &[u8]) {
        let (pos, bb) = any_pos_kinds(kinds, 0);
        let qf = any_sq(); let qt = any_sq(); let qp: u8 = kani::any();
        kani::assume(qp == 0 || (qp >= N && qp <= Q));
        unsafe { Q_KEY = (qf, qt, qp); Q_MATCHES = 0; Q_TOTAL = 0; }
        let mut buf: Vec<Move> = Vec::new();
        bb.generate_pseudo_legal_moves_with_buffer(&mut buf);
        let m = unsafe { Q_MATCHES };
        assert!(m <= 1);
        assert_eq!(m == 1, pseudo_legal(&pos, qf, qt, qp));
    }

    macro_rules! obsk {
        ($name:ident, $kinds:expr) => {
            #[kani::proof]
            #[kani::unwind(9)]
            #[kani::stub(std::vec::Vec::push, push_observer)]
            #[kani::stub(<[inkayaku_board::verif::MagicConfiguration; 64] as inkayaku_board::verif::UnsafeMagicsExt>::get_attacks, magics_model)]
            fn $name() { obsk_body(&$kinds) }
        };
    }
    obsk!(obsk_none, []);
    obsk!(obsk_q, [Q]);
    obsk!(obsk_r, [R]);
    obsk!(obsk_p, [P]);
    obsk!(obsk_rp, [R, P]);
    obsk!(obsk_pp, [P, P]);
    obsk!(obsk_rpp, [R, P, P]);

    // ---- C05 on fully symbolic boards (any number of pieces) --------------------------------
    fn any_side_full() -> [u64; 7] {
        let a: [u64; 7] = kani::any();
        kani::assume(a[0] == 0);
        kani::assume(a[6].count_ones() == 1);
        kani::assume(a[1] & a[2] == 0 && (a[1] | a[2]) & a[3] == 0 && (a[1] | a[2] | a[3]) & a[4] == 0 && (a[1] | a[2] | a[3] | a[4]) & a[5] == 0 && (a[1] | a[2] | a[3] | a[4] | a[5]) & a[6] == 0);
        a
    }
    fn all7(a: &[u64; 7]) -> u64 { a[1] | a[2] | a[3] | a[4] | a[5] | a[6] }
    fn bit(b: u64, f: i32, r: i32) -> bool { f >= 0 && f < 8 && r >= 0 && r < 8 && (b >> (r * 8 + f)) & 1 == 1 }

    /// reference: is the king of side `us` (0 white) attacked, computed by walking from the king square over bitboards
    fn ref_in_check(us_king: u64, occ: u64, them: &[u64; 7], us: u32) -> bool {
        let s = us_king.trailing_zeros() as i32;
        let (f0, r0) = (s % 8, s / 8);
        const D: [(i32, i32); 8] = [(1, 0), (-1, 0), (0, 1), (0, -1), (1, 1), (1, -1), (-1, 1), (-1, -1)];
        let mut d = 0;
        while d < 8 {
            let (df, dr) = D[d];
            let mut step = 1;
            while step <= 7 {
                let (f, r) = (f0 + df * step, r0 + dr * step);
                if !(f >= 0 && f < 8 && r >= 0 && r < 8) { break; }
                if bit(occ, f, r) {
                    if bit(them[5], f, r) || (d < 4 && bit(them[4], f, r)) || (d >= 4 && bit(them[3], f, r)) || (step == 1 && bit(them[6], f, r)) { return true; }
                    break;
                }
                step += 1;
            }
            d += 1;
        }
        const KN: [(i32, i32); 8] = [(1, 2), (2, 1), (2, -1), (1, -2), (-1, -2), (-2, -1), (-2, 1), (-1, 2)];
        let mut i = 0;
        while i < 8 { if bit(them[2], f0 + KN[i].0, r0 + KN[i].1) { return true; } i += 1; }
        let pr = if us == 0 { r0 - 1 } else { r0 + 1 }; // enemy pawns attacking a white king stand one row towards rank 8
        bit(them[1], f0 - 1, pr) || bit(them[1], f0 + 1, pr)
    }

    #[kani::proof]
    #[kani::unwind(9)]
    #[kani::stub(<[inkayaku_board::verif::MagicConfiguration; 64] as inkayaku_board::verif::UnsafeMagicsExt>::get_attacks, magics_model)]
    fn check_full_board() {
        let w = any_side_full();
        let b = any_side_full();
        kani::assume(all7(&w) & all7(&b) == 0);
        let turn: u32 = kani::any();
        kani::assume(turn < 2);
        let bb = Bitboard { white: verif::player_state(w, kani::any(), kani::any()), black: verif::player_state(b, kani::any(), kani::any()), turn, en_passant_square_shift: 0, fullmove_clock: 1, halfmove_clock: 0 };
        let occ = all7(&w) | all7(&b);
        let white_in_check = ref_in_check(w[6], occ, &b, 0);
        let black_in_check = ref_in_check(b[6], occ, &w, 1);
        assert_eq!(bb.is_in_check(&inkayaku_core::constants::Color::WHITE), white_in_check);
        assert_eq!(bb.is_in_check(&inkayaku_core::constants::Color::BLACK), black_in_check);
        assert_eq!(bb.is_current_in_check(), if turn == 0 { white_in_check } else { black_in_check });
        assert_eq!(bb.is_valid(), !(if turn == 0 { black_in_check } else { white_in_check }));
    }

    fn piece_at(bb: &Bitboard, s: u8) -> u8 {
        let m = 1u64 << s;
        let mut k = 1u64;
        while k <= 6 {
            if bb.white.occupancy(k) & m != 0 { return mk(k as u8, 0); }
            if bb.black.occupancy(k) & m != 0 { return mk(k as u8, 1); }
            k += 1;
        }
        EMPTY
    }

    fn mk_body(kinds: &[u8], turn: u8) {
        let (pos, mut bb) = any_pos_kinds(kinds, turn);
        let qf = any_sq(); let qt = any_sq(); let qp: u8 = kani::any();
        kani::assume(qp == 0 || (qp >= N && qp <= Q));
        unsafe { Q_KEY = (qf, qt, qp); Q_MATCHES = 0; Q_TOTAL = 0; }
        let mut buf: Vec<Move> = Vec::new();
        bb.generate_pseudo_legal_moves_with_buffer(&mut buf);
        kani::assume(unsafe { Q_MATCHES } == 1);
        let mv = unsafe { Q_LAST };
        // snapshot
        let (w0, b0, t0, e0, f0, h0) = (bb.white, bb.black, bb.turn, bb.en_passant_square_shift, bb.fullmove_clock, bb.halfmove_clock);
        let z0 = bb.calculate_zobrist_hash();
        let zp0 = bb.calculate_zobrist_pawn_hash();
        bb.make(mv);
        // C02: successor equals reference
        let n = apply(&pos, qf, qt, qp);
        let s = any_sq();
        assert_eq!(piece_at(&bb, s), n.sq[s as usize]);
        assert_eq!(bb.turn, n.turn as u32);
        assert_eq!(bb.en_passant_square_shift, n.ep as u32);
        assert_eq!(bb.halfmove_clock, n.half);
        assert_eq!(bb.fullmove_clock, n.full);
        assert_eq!((bb.white.king_side_castle, bb.white.queen_side_castle, bb.black.king_side_castle, bb.black.queen_side_castle), (n.wk, n.wq, n.bk, n.bq));
        // C05: validity == own king not attacked in the reference successor
        assert_eq!(bb.is_valid(), !attacked(&n, king_square(&n, turn), 1 - turn));
        // C06: incremental == recomputed
        let (x, xp) = Bitboard::zobrist_xor(mv);
        assert_eq!(z0 ^ x, bb.calculate_zobrist_hash());
        assert_eq!(zp0 ^ xp, bb.calculate_zobrist_pawn_hash());
        // C03: unmake restores
        bb.unmake(mv);
        assert!(bb.white == w0 && bb.black == b0 && bb.turn == t0 && bb.en_passant_square_shift == e0 && bb.fullmove_clock == f0 && bb.halfmove_clock == h0);
    }

    macro_rules! mkh {
        ($name:ident, $kinds:expr, $turn:expr) => {
            #[kani::proof]
            #[kani::unwind(9)]
            #[kani::stub(std::vec::Vec::push, push_observer)]
            #[kani::stub(<[inkayaku_board::verif::MagicConfiguration; 64] as inkayaku_board::verif::UnsafeMagicsExt>::get_attacks, magics_model)]
            fn $name() { mk_body(&$kinds, $turn) }
        };
    }
    mkh!(mk_q_w, [Q], 0);
    mkh!(mk_p_b, [P], 1);

    // ---- C13: find_uci on a concrete position, symbolic 4-byte move text ---------------------
    #[kani::proof]
    #[kani::unwind(40)]
    fn find_uci_concrete() {
        let mut w = [0u64; 7]; let mut b = [0u64; 7];
        w[K as usize] = 1 << 60; w[B as usize] = 1 << 61; b[R as usize] = 1 << 63; b[K as usize] = 1 << 4;
        let mut bb = Bitboard { white: verif::player_state(w, false, false), black: verif::player_state(b, false, false), turn: 0, en_passant_square_shift: 0, fullmove_clock: 10, halfmove_clock: 3 };
        let bytes: [u8; 4] = kani::any();
        kani::assume(bytes[0] >= b'a' && bytes[0] <= b'h' && bytes[2] >= b'a' && bytes[2] <= b'h');
        kani::assume(bytes[1] >= b'1' && bytes[1] <= b'8' && bytes[3] >= b'1' && bytes[3] <= b'8');
        let s = unsafe { std::str::from_utf8_unchecked(&bytes) };
        let (w0, b0, t0, e0, f0, h0) = (bb.white, bb.black, bb.turn, bb.en_passant_square_shift, bb.fullmove_clock, bb.halfmove_clock);
        let r = bb.find_uci(s);
        core::mem::forget(r);
        assert!(bb.white == w0 && bb.black == b0 && bb.turn == t0 && bb.en_passant_square_shift == e0 && bb.fullmove_clock == f0 && bb.halfmove_clock == h0);
    }

    // ---- C13 variant: format! stubbed by an arbitrary 4-byte string --------------------------------
    fn format_any(_args: core::fmt::Arguments<'_>) -> String {
        let b: [u8; 4] = kani::any();
        kani::assume(b[0] < 128 && b[1] < 128 && b[2] < 128 && b[3] < 128);
        unsafe { String::from_utf8_unchecked(vec![b[0], b[1], b[2], b[3]]) }
    }

    #[kani::proof]
    #[kani::unwind(40)]
    #[kani::stub(alloc::fmt::format, format_any)]
    fn find_uci_fmtstub() {
        let mut w = [0u64; 7]; let mut b = [0u64; 7];
        w[K as usize] = 1 << 60; w[B as usize] = 1 << 61; b[R as usize] = 1 << 63; b[K as usize] = 1 << 4;
        let mut bb = Bitboard { white: verif::player_state(w, false, false), black: verif::player_state(b, false, false), turn: 0, en_passant_square_shift: 0, fullmove_clock: 10, halfmove_clock: 3 };
        let bytes: [u8; 4] = kani::any();
        kani::assume(bytes[0] < 128 && bytes[1] < 128 && bytes[2] < 128 && bytes[3] < 128);
        let s = unsafe { std::str::from_utf8_unchecked(&bytes) };
        let (w0, b0, t0, e0, f0, h0) = (bb.white, bb.black, bb.turn, bb.en_passant_square_shift, bb.fullmove_clock, bb.halfmove_clock);
        let r = bb.find_uci(s);
        core::mem::forget(r);
        assert!(bb.turn == t0 && bb.en_passant_square_shift == e0 && bb.fullmove_clock == f0 && bb.halfmove_clock == h0);
        assert!(bb.white.occupancy(3) == w0.occupancy(3) && bb.white.occupancy(6) == w0.occupancy(6) && bb.black.occupancy(4) == b0.occupancy(4) && bb.black.occupancy(6) == b0.occupancy(6));
    }

    fn ps_eq(a: &inkayaku_board::PlayerState, b: &inkayaku_board::PlayerState) -> bool {
        a.occupancy(1) == b.occupancy(1) && a.occupancy(2) == b.occupancy(2) && a.occupancy(3) == b.occupancy(3)
            && a.occupancy(4) == b.occupancy(4) && a.occupancy(5) == b.occupancy(5) && a.occupancy(6) == b.occupancy(6)
            && a.king_side_castle == b.king_side_castle && a.queen_side_castle == b.queen_side_castle
    }

    fn observed(kinds: &[u8], turn: u8) -> (Pos, Bitboard, (u8, u8, u8), Move) {
        let (pos, bb) = any_pos_kinds(kinds, turn);
        let qf = any_sq(); let qt = any_sq(); let qp: u8 = kani::any();
        kani::assume(qp == 0 || (qp >= N && qp <= Q));
        unsafe { Q_KEY = (qf, qt, qp); Q_MATCHES = 0; Q_TOTAL = 0; }
        let mut buf: Vec<Move> = Vec::new();
        bb.generate_pseudo_legal_moves_with_buffer(&mut buf);
        kani::assume(unsafe { Q_MATCHES } == 1);
        (pos, bb, (qf, qt, qp), unsafe { Q_LAST })
    }

    fn c03_body(kinds: &[u8], turn: u8) {
        let (_pos, mut bb, _q, mv) = observed(kinds, turn);
        let (w0, b0, t0, e0, f0, h0) = (bb.white, bb.black, bb.turn, bb.en_passant_square_shift, bb.fullmove_clock, bb.halfmove_clock);
        bb.make(mv);
        bb.unmake(mv);
        assert!(ps_eq(&bb.white, &w0) && ps_eq(&bb.black, &b0) && bb.turn == t0 && bb.en_passant_square_shift == e0 && bb.fullmove_clock == f0);
        assert!(bb.halfmove_clock == h0);
    }

    fn c02_body(kinds: &[u8], turn: u8) {
        let (pos, mut bb, (qf, qt, qp), mv) = observed(kinds, turn);
        kani::assume(legal(&pos, qf, qt, qp));
        bb.make(mv);
        let n = apply(&pos, qf, qt, qp);
        let s = any_sq();
        assert_eq!(piece_at(&bb, s), n.sq[s as usize]);
        assert_eq!(bb.turn, n.turn as u32);
        assert_eq!(bb.en_passant_square_shift, n.ep as u32);
        assert_eq!(bb.halfmove_clock, n.half);
        assert_eq!(bb.fullmove_clock, n.full);
        assert!(bb.white.king_side_castle == n.wk && bb.white.queen_side_castle == n.wq && bb.black.king_side_castle == n.bk && bb.black.queen_side_castle == n.bq);
    }

    fn c06_body(kinds: &[u8], turn: u8) {
        let (_pos, mut bb, _q, mv) = observed(kinds, turn);
        let z0 = bb.calculate_zobrist_hash();
        let zp0 = bb.calculate_zobrist_pawn_hash();
        bb.make(mv);
        let (x, xp) = Bitboard::zobrist_xor(mv);
        assert_eq!(z0 ^ x, bb.calculate_zobrist_hash());
        assert_eq!(zp0 ^ xp, bb.calculate_zobrist_pawn_hash());
    }

    macro_rules! fam {
        ($name:ident, $body:ident, $kinds:expr, $turn:expr) => {
            #[kani::proof]
            #[kani::unwind(9)]
            #[kani::stub(std::vec::Vec::push, push_observer)]
            #[kani::stub(<[inkayaku_board::verif::MagicConfiguration; 64] as inkayaku_board::verif::UnsafeMagicsExt>::get_attacks, magics_model)]
            fn $name() { $body(&$kinds, $turn) }
        };
    }
    fam!(c03_q_w, c03_body, [Q], 0);
    fam!(c02_q_w, c02_body, [Q], 0);
    fam!(c06_q_w, c06_body, [Q], 0);
    fam!(c03_rp_b, c03_body, [R, P], 1);

    // ---- C13 on symbolic positions: the pseudo-legal list is abstracted to "any one of its elements, or none"
    fn gen_any_one(this: &Bitboard) -> Vec<Move> {
        let qf = any_sq(); let qt = any_sq(); let qp: u8 = kani::any();
        kani::assume(qp == 0 || (qp >= N && qp <= Q));
        unsafe { Q_KEY = (qf, qt, qp); Q_MATCHES = 0; Q_TOTAL = 0; }
        let mut tmp: Vec<Move> = Vec::new();
        this.generate_pseudo_legal_moves_with_buffer(&mut tmp);
        if unsafe { Q_MATCHES } == 1 { vec![unsafe { Q_LAST }] } else { Vec::new() }
    }
    fn format_any5(_args: core::fmt::Arguments<'_>) -> String {
        let b: [u8; 4] = kani::any();
        unsafe { String::from_utf8_unchecked(vec![b[0] & 127, b[1] & 127, b[2] & 127, b[3] & 127]) }
    }

    fn c13_find_body(kinds: &[u8], turn: u8) {
        let (_pos, mut bb) = any_pos_kinds(kinds, turn);
        let bytes: [u8; 4] = kani::any();
        kani::assume(bytes[0] < 128 && bytes[1] < 128 && bytes[2] < 128 && bytes[3] < 128);
        let s = unsafe { std::str::from_utf8_unchecked(&bytes) };
        let (w0, b0, t0, e0, f0, h0) = (bb.white, bb.black, bb.turn, bb.en_passant_square_shift, bb.fullmove_clock, bb.halfmove_clock);
        let r = bb.find_uci(s);
        core::mem::forget(r);
        assert!(ps_eq(&bb.white, &w0) && ps_eq(&bb.black, &b0) && bb.turn == t0 && bb.en_passant_square_shift == e0 && bb.fullmove_clock == f0 && bb.halfmove_clock == h0);
    }

    macro_rules! fam13 {
        ($name:ident, $body:ident, $kinds:expr, $turn:expr) => {
            #[kani::proof]
            #[kani::unwind(9)]
            #[kani::stub(std::vec::Vec::push, push_observer)]
            #[kani::stub(<[inkayaku_board::verif::MagicConfiguration; 64] as inkayaku_board::verif::UnsafeMagicsExt>::get_attacks, magics_model)]
            #[kani::stub(inkayaku_board::Bitboard::generate_pseudo_legal_moves, gen_any_one)]
            #[kani::stub(alloc::fmt::format, format_any5)]
            fn $name() { $body(&$kinds, $turn) }
        };
    }
    fam13!(c13_find_none_w, c13_find_body, [], 0);

    // ---- C06 key separation through the real hash function ------------------------------------
    fn one_piece_board(wk: u8, bk: u8, kind: u8, col: u8, sq: u8, turn: u32, rights: (bool, bool, bool, bool), ep: u32) -> Bitboard {
        let mut w = [0u64; 7]; let mut b = [0u64; 7];
        w[6] = 1u64 << wk; b[6] = 1u64 << bk;
        if col == 0 { w[kind as usize] |= 1u64 << sq; } else { b[kind as usize] |= 1u64 << sq; }
        Bitboard { white: verif::player_state(w, rights.1, rights.0), black: verif::player_state(b, rights.3, rights.2), turn, en_passant_square_shift: ep, fullmove_clock: 1, halfmove_clock: 0 }
    }

    #[kani::proof]
    #[kani::unwind(4)]
    fn c06_separate_piece() {
        let wk = any_sq(); let bk = any_sq(); kani::assume(wk != bk);
        let (k1, c1, s1): (u8, u8, u8) = (kani::any(), kani::any(), any_sq());
        let (k2, c2, s2): (u8, u8, u8) = (kani::any(), kani::any(), any_sq());
        kani::assume(k1 >= 1 && k1 <= 5 && k2 >= 1 && k2 <= 5 && c1 < 2 && c2 < 2);
        kani::assume(s1 != wk && s1 != bk && s2 != wk && s2 != bk);
        kani::assume((k1, c1, s1) != (k2, c2, s2));
        let turn: u32 = kani::any(); kani::assume(turn < 2);
        let r: (bool, bool, bool, bool) = (kani::any(), kani::any(), kani::any(), kani::any());
        let a = one_piece_board(wk, bk, k1, c1, s1, turn, r, 0);
        let b = one_piece_board(wk, bk, k2, c2, s2, turn, r, 0);
        assert!(a.calculate_zobrist_hash() != b.calculate_zobrist_hash());
    }

    #[kani::proof]
    #[kani::unwind(4)]
    fn c06_separate_flags() {
        let wk = any_sq(); let bk = any_sq(); kani::assume(wk != bk);
        let (k1, c1, s1): (u8, u8, u8) = (kani::any(), kani::any(), any_sq());
        kani::assume(k1 >= 1 && k1 <= 5 && c1 < 2 && s1 != wk && s1 != bk);
        let t1: u32 = kani::any(); let t2: u32 = kani::any(); kani::assume(t1 < 2 && t2 < 2);
        let r1: (bool, bool, bool, bool) = (kani::any(), kani::any(), kani::any(), kani::any());
        let r2: (bool, bool, bool, bool) = (kani::any(), kani::any(), kani::any(), kani::any());
        let e1: u32 = kani::any(); let e2: u32 = kani::any();
        kani::assume(e1 == 0 || (e1 >= 16 && e1 < 24) || (e1 >= 40 && e1 < 48));
        kani::assume(e2 == 0 || (e2 >= 16 && e2 < 24) || (e2 >= 40 && e2 < 48));
        // exactly one component differs
        let dt = (t1 != t2) as u8; let de = (e1 != e2) as u8;
        let dr = (r1.0 != r2.0) as u8 + (r1.1 != r2.1) as u8 + (r1.2 != r2.2) as u8 + (r1.3 != r2.3) as u8;
        kani::assume(dt + de + dr == 1);
        kani::assume(de == 0 || e1 == 0 || e2 == 0 || e1 % 8 != e2 % 8);
        let a = one_piece_board(wk, bk, k1, c1, s1, t1, r1, e1);
        let b = one_piece_board(wk, bk, k1, c1, s1, t2, r2, e2);
        assert!(a.calculate_zobrist_hash() != b.calculate_zobrist_hash());
    }

    // ---- C04 leapers, symbolic square ---------------------------------------------------------------
    fn step_ref(sq: u32, d: &[(i32, i32)]) -> u64 {
        let (f0, r0) = ((sq % 8) as i32, (sq / 8) as i32);
        let mut res = 0u64; let mut i = 0;
        while i < d.len() { let (f, r) = (f0 + d[i].0, r0 + d[i].1); if f >= 0 && f < 8 && r >= 0 && r < 8 { res |= 1u64 << (r * 8 + f); } i += 1; }
        res
    }
    #[kani::proof]
    #[kani::unwind(9)]
    fn c04_leapers() {
        let sq: u32 = kani::any(); kani::assume(sq < 64);
        assert_eq!(verif::king_attacks(sq), step_ref(sq, &[(1, 0), (1, 1), (0, 1), (-1, 1), (-1, 0), (-1, -1), (0, -1), (1, -1)]));
        assert_eq!(verif::knight_attacks(sq), step_ref(sq, &[(1, 2), (2, 1), (2, -1), (1, -2), (-1, -2), (-2, -1), (-2, 1), (-1, 2)]));
        assert_eq!(verif::white_pawn_attacks(sq), step_ref(sq, &[(-1, -1), (1, -1)]));
        assert_eq!(verif::black_pawn_attacks(sq), step_ref(sq, &[(-1, 1), (1, 1)]));
    }

    // ---- C06.1 with the key table abstracted to an arbitrary table with zero "no piece" rows -----------
    static mut KEYS: [[u64; 64]; 14] = [[0; 64]; 14];
    fn psq_model(piece: u64, square: u32, color: u32) -> u64 {
        unsafe { KEYS[(piece as usize) + 7 * (color as usize)][square as usize] }
    }
    fn c06a_body(kinds: &[u8], turn: u8) {
        let keys: [[u64; 64]; 14] = kani::any();
        unsafe { KEYS = keys; KEYS[0] = [0; 64]; KEYS[7] = [0; 64]; }
        let (_pos, mut bb, _q, mv) = observed(kinds, turn);
        let z0 = bb.calculate_zobrist_hash();
        let zp0 = bb.calculate_zobrist_pawn_hash();
        bb.make(mv);
        let (x, xp) = Bitboard::zobrist_xor(mv);
        assert_eq!(z0 ^ x, bb.calculate_zobrist_hash());
        assert_eq!(zp0 ^ xp, bb.calculate_zobrist_pawn_hash());
    }
    macro_rules! fam6 {
        ($name:ident, $body:ident, $kinds:expr, $turn:expr) => {
            #[kani::proof]
            #[kani::unwind(66)]
            #[kani::stub(std::vec::Vec::push, push_observer)]
            #[kani::stub(<[inkayaku_board::verif::MagicConfiguration; 64] as inkayaku_board::verif::UnsafeMagicsExt>::get_attacks, magics_model)]
            #[kani::stub(inkayaku_board::board::zobrist::Zobrist::piece_square_hash, psq_model)]
            fn $name() { $body(&$kinds, $turn) }
        };
    }
    fam6!(c06a_q_w, c06a_body, [Q], 0);
    fam6!(c06a_p_b, c06a_body, [P], 1);

    // ---- C06.1 decomposed: L1 linearity, L2 delta = skeleton delta ^ piece-key delta (probe: K = {Q}) ----
    fn skeleton(wk: u8, bk: u8, turn: u32, r: (bool, bool, bool, bool), ep: u32) -> Bitboard {
        let mut w = [0u64; 7]; let mut b = [0u64; 7];
        w[6] = 1u64 << wk; b[6] = 1u64 << bk;
        Bitboard { white: verif::player_state(w, r.1, r.0), black: verif::player_state(b, r.3, r.2), turn, en_passant_square_shift: ep, fullmove_clock: 1, halfmove_clock: 0 }
    }

    #[kani::proof]
    #[kani::unwind(4)]
    fn c06_l1_q() {
        let wk = any_sq(); let bk = any_sq(); kani::assume(wk != bk);
        let (c1, s1): (u8, u8) = (kani::any(), any_sq());
        kani::assume(c1 < 2 && s1 != wk && s1 != bk);
        let turn: u32 = kani::any(); kani::assume(turn < 2);
        let r: (bool, bool, bool, bool) = (kani::any(), kani::any(), kani::any(), kani::any());
        let ep: u32 = kani::any(); kani::assume(ep < 64);
        let full = one_piece_board(wk, bk, Q, c1, s1, turn, r, ep);
        let skel = skeleton(wk, bk, turn, r, ep);
        assert_eq!(full.calculate_zobrist_hash(), skel.calculate_zobrist_hash() ^ verif::zobrist_piece_key(Q as u64, s1 as u32, c1 as u32));
    }

    #[kani::proof]
    #[kani::unwind(9)]
    #[kani::stub(std::vec::Vec::push, push_observer)]
    #[kani::stub(<[inkayaku_board::verif::MagicConfiguration; 64] as inkayaku_board::verif::UnsafeMagicsExt>::get_attacks, magics_model)]
    fn c06_l2_q_w() {
        // exactly K, k, and a queen of either colour; white to move; no rights, no e.p. (none possible here)
        let wk = any_sq(); let bk = any_sq(); kani::assume(wk != bk);
        let (c1, s1): (u8, u8) = (kani::any(), any_sq());
        kani::assume(c1 < 2 && s1 != wk && s1 != bk);
        let mut sq = [EMPTY; 64];
        sq[wk as usize] = mk(K, 0); sq[bk as usize] = mk(K, 1); sq[s1 as usize] = mk(Q, c1);
        let pos = Pos { sq, turn: 0, wk: false, wq: false, bk: false, bq: false, ep: 0, half: 0, full: 1 };
        kani::assume(!attacked(&pos, bk, 0));
        let bb = one_piece_board(wk, bk, Q, c1, s1, 0, (false, false, false, false), 0);
        let qf = any_sq(); let qt = any_sq();
        unsafe { Q_KEY = (qf, qt, 0); Q_MATCHES = 0; Q_TOTAL = 0; }
        let mut buf: Vec<Move> = Vec::new();
        bb.generate_pseudo_legal_moves_with_buffer(&mut buf);
        kani::assume(unsafe { Q_MATCHES } == 1);
        let mv = unsafe { Q_LAST };
        // successor in piece-list form
        let wk2 = if qf == wk { qt } else { wk };
        let queen_after: Option<u8> = if qf == s1 { Some(qt) } else if qt == s1 { None } else { Some(s1) };
        let before = skeleton(wk, bk, 0, (false, false, false, false), 0).calculate_zobrist_hash() ^ verif::zobrist_piece_key(Q as u64, s1 as u32, c1 as u32);
        let after_skel = skeleton(wk2, bk, 1, (false, false, false, false), 0).calculate_zobrist_hash();
        let after = match queen_after { Some(s) => after_skel ^ verif::zobrist_piece_key(Q as u64, s as u32, c1 as u32), None => after_skel };
        let (x, _xp) = Bitboard::zobrist_xor(mv);
        assert_eq!(x, before ^ after);
    }

    // ---- C06.1 with indicator keys: key(t) = [t == T*] for a symbolic probe index T* -------------------
    static mut T_STAR: u32 = 0;
    fn psq_indicator(piece: u64, square: u32, color: u32) -> u64 {
        let t = (piece as u32 + 7 * color) * 64 + square;
        if piece == 0 { return 0; }           // the real table's rows 0 and 7 are zero (checked separately)
        (t == unsafe { T_STAR }) as u64
    }
    fn c06i_body(kinds: &[u8], turn: u8) {
        let t: u32 = kani::any();
        kani::assume(t < 14 * 64);
        unsafe { T_STAR = t; }
        let (_pos, mut bb, _q, mv) = observed(kinds, turn);
        let z0 = bb.calculate_zobrist_hash();
        let zp0 = bb.calculate_zobrist_pawn_hash();
        bb.make(mv);
        let (x, xp) = Bitboard::zobrist_xor(mv);
        assert_eq!(z0 ^ x, bb.calculate_zobrist_hash());
        assert_eq!(zp0 ^ xp, bb.calculate_zobrist_pawn_hash());
    }
    macro_rules! fam6i {
        ($name:ident, $body:ident, $kinds:expr, $turn:expr) => {
            #[kani::proof]
            #[kani::unwind(9)]
            #[kani::stub(std::vec::Vec::push, push_observer)]
            #[kani::stub(<[inkayaku_board::verif::MagicConfiguration; 64] as inkayaku_board::verif::UnsafeMagicsExt>::get_attacks, magics_model)]
            #[kani::stub(inkayaku_board::board::zobrist::Zobrist::piece_square_hash, psq_indicator)]
            fn $name() { $body(&$kinds, $turn) }
        };
    }
    fam6i!(c06i_q_w, c06i_body, [Q], 0);
    fam6i!(c06i_rp_b, c06i_body, [R, P], 1);

    // ---- C01 assertions 3-4: legality filter and quiescence generator ------------------------------------
    fn c01_legal_body(kinds: &[u8], turn: u8) {
        let (pos, mut bb, (qf, qt, qp), mv) = observed(kinds, turn);
        let own_king = if turn == 0 { bb.white.occupancy(6).trailing_zeros() as u8 } else { bb.black.occupancy(6).trailing_zeros() as u8 };
        let ks = if qf == own_king { qt } else { own_king };
        let n = apply(&pos, qf, qt, qp);
        let ref_legal = !attacked(&n, ks, 1 - turn);
        assert_eq!(bb.is_move_legal(mv), ref_legal);
    }
    fn c01_nq_body(kinds: &[u8], turn: u8) {
        let (pos, bb) = any_pos_kinds(kinds, turn);
        let qf = any_sq(); let qt = any_sq(); let qp: u8 = kani::any();
        kani::assume(qp == 0 || (qp >= N && qp <= Q));
        unsafe { Q_KEY = (qf, qt, qp); Q_MATCHES = 0; Q_TOTAL = 0; }
        let mut buf: Vec<Move> = Vec::new();
        bb.generate_pseudo_legal_non_quiescent_moves_with_buffer(&mut buf);
        let m = unsafe { Q_MATCHES };
        assert!(m <= 1);
        let noisy = pos.sq[qt as usize] != EMPTY || qp != 0 || is_ep_capture(&pos, qf, qt);
        assert_eq!(m == 1, pseudo_legal(&pos, qf, qt, qp) && noisy && !is_castle(&pos, qf, qt));
    }
    fam!(c01_legal_q_w, c01_legal_body, [Q], 0);
    fam!(c01_nq_rp_b, c01_nq_body, [R, P], 1);
}
