#![allow(dead_code)]
#![feature(allocator_api)]
#[cfg(kani)]
mod proofs {
    use inkayaku_engine_core::verif::{History, Table};
    use inkayaku_uci::UciMove;
    use std::str::FromStr;

    // ---- C10: repetition counter vs reference on a symbolic history window --------------
    const W: usize = 12;
    #[kani::proof]
    #[kani::unwind(14)]
    fn rep_count_window() {
        let mut h = History::new();
        let base: u16 = 100;
        let vals: [u64; W + 1] = kani::any();
        let mut i = 0;
        while i <= W { h.set(base + i as u16, vals[i]); i += 1; }
        let start = base + W as u16;
        let half: u16 = kani::any();
        kani::assume(half as usize <= W);
        let got = h.count_repetitions(start, half);
        // reference: occurrences of the current hash among positions start, start-2, ... within the last `half` plies
        let mut occ = 1usize;
        let mut d = 4usize;
        while d <= W {
            if d <= half as usize && vals[W - d] == vals[W] { occ += 1; }
            d += 2;
        }
        assert_eq!(got >= 3, occ >= 3);
    }

    // ---- C18: HashTable as FIFO-bounded map ------------------------------------------------
    #[kani::proof]
    #[kani::unwind(6)]
    fn table_ops_3() {
        let cap: usize = kani::any();
        kani::assume(cap >= 1 && cap <= 2);
        let mut t = Table::new(cap);
        let k1: u64 = kani::any(); let k2: u64 = kani::any(); let k3: u64 = kani::any();
        kani::assume(k1 < 4 && k2 < 4 && k3 < 4);
        t.put(k1, 1);
        t.put(k2, 2);
        t.put(k3, 3);
        assert!(t.len() <= cap);
        assert_eq!(t.get(k3), Some(3));
    }

    // ---- C15: UciMove::from_str total on 4..5 byte ASCII strings -----------------------------
    #[kani::proof]
    #[kani::unwind(8)]
    fn ucimove_no_panic() {
        let bytes: [u8; 5] = kani::any();
        let len: usize = kani::any();
        kani::assume(len <= 5);
        let mut i = 0;
        while i < 5 { kani::assume(bytes[i] < 128); i += 1; }
        let s = unsafe { std::str::from_utf8_unchecked(&bytes[..len]) };
        let _ = UciMove::from_str(s);
    }

    use inkayaku_board::Bitboard;
    use inkayaku_board::verif as bverif;
    use inkayaku_engine_core::verif as everif;

    fn any_side(maxn: u32) -> [u64; 7] {
        let a: [u64; 7] = kani::any();
        kani::assume(a[0] == 0);
        kani::assume(a[1].count_ones() <= maxn && a[2].count_ones() <= maxn && a[3].count_ones() <= maxn && a[4].count_ones() <= maxn && a[5].count_ones() <= maxn);
        kani::assume(a[6].count_ones() == 1);
        // pairwise disjoint
        kani::assume(a[1] & a[2] == 0 && (a[1] | a[2]) & a[3] == 0 && (a[1] | a[2] | a[3]) & a[4] == 0 && (a[1] | a[2] | a[3] | a[4]) & a[5] == 0 && (a[1] | a[2] | a[3] | a[4] | a[5]) & a[6] == 0);
        a
    }
    fn all(a: &[u64; 7]) -> u64 { a[1] | a[2] | a[3] | a[4] | a[5] | a[6] }
    fn flipv(a: &[u64; 7]) -> [u64; 7] {
        [0, a[1].swap_bytes(), a[2].swap_bytes(), a[3].swap_bytes(), a[4].swap_bytes(), a[5].swap_bytes(), a[6].swap_bytes()]
    }

    #[kani::proof]
    #[kani::unwind(4)]
    fn eval_symmetry_2() { eval_sym(2) }
    #[kani::proof]
    #[kani::unwind(4)]
    fn eval_symmetry_1() { eval_sym(1) }
    fn eval_sym(maxn: u32) {
        let w = any_side(maxn);
        let b = any_side(maxn);
        kani::assume(all(&w) & all(&b) == 0);
        let turn: u32 = kani::any();
        kani::assume(turn < 2);
        let half: u32 = kani::any();
        let full: u32 = kani::any();
        let (wq, wk, bq, bk): (bool, bool, bool, bool) = (kani::any(), kani::any(), kani::any(), kani::any());
        let p = Bitboard { white: bverif::player_state(w, wq, wk), black: bverif::player_state(b, bq, bk), turn, en_passant_square_shift: 0, fullmove_clock: full, halfmove_clock: half };
        let f = Bitboard { white: bverif::player_state(flipv(&b), bq, bk), black: bverif::player_state(flipv(&w), wq, wk), turn: 1 - turn, en_passant_square_shift: 0, fullmove_clock: full, halfmove_clock: half };
        assert_eq!(everif::evaluate(&p, true), -everif::evaluate(&f, true));
    }

    // ---- ghost models for std containers (single instance) ---------------------------------
    use std::collections::{HashMap, VecDeque};
    use std::hash::{BuildHasher, Hash};
    const G: usize = 4;
    static mut M_USED: [bool; G] = [false; G];
    static mut M_KEY: [u64; G] = [0; G];
    static mut M_VAL: [u64; G] = [0; G];
    static mut Q_BUF: [u64; G + 1] = [0; G + 1];
    static mut Q_LEN: usize = 0;

    fn as_u64<T>(t: &T) -> u64 { assert!(core::mem::size_of::<T>() == 8); unsafe { core::mem::transmute_copy(t) } }
    fn from_u64<T>(v: u64) -> T { assert!(core::mem::size_of::<T>() == 8); unsafe { core::mem::transmute_copy(&v) } }

    fn m_find(k: u64) -> usize { let mut i = 0; while i < G { unsafe { if M_USED[i] && M_KEY[i] == k { return i; } } i += 1; } G }
    fn m_len() -> usize { let mut n = 0; let mut i = 0; while i < G { unsafe { if M_USED[i] { n += 1; } } i += 1; } n }

    fn map_insert<K: Eq + Hash, V, S: BuildHasher, A: std::alloc::Allocator>(_m: &mut HashMap<K, V, S, A>, k: K, v: V) -> Option<V> {
        let (k, v) = (as_u64(&k), as_u64(&v));
        let i = m_find(k);
        unsafe {
            if i < G { let old = M_VAL[i]; M_VAL[i] = v; return Some(from_u64(old)); }
            let mut j = 0;
            while j < G { if !M_USED[j] { M_USED[j] = true; M_KEY[j] = k; M_VAL[j] = v; return None; } j += 1; }
        }
        kani::assume(false); // ghost capacity exceeded: outside the bound
        None
    }
    fn map_remove<K, V, S, A: std::alloc::Allocator, Q: ?Sized>(_m: &mut HashMap<K, V, S, A>, k: &Q) -> Option<V> {
        let k: u64 = unsafe { *(k as *const Q as *const u64) };
        let i = m_find(k);
        unsafe { if i < G { M_USED[i] = false; return Some(from_u64(M_VAL[i])); } }
        None
    }
    fn map_get<'a, K, V, S, A: std::alloc::Allocator, Q: ?Sized>(_m: &'a HashMap<K, V, S, A>, k: &Q) -> Option<&'a V> {
        let k: u64 = unsafe { *(k as *const Q as *const u64) };
        let i = m_find(k);
        unsafe { if i < G { return Some(&*(&raw const M_VAL[i] as *const V)); } }
        None
    }
    fn map_len<K, V, S, A: std::alloc::Allocator>(_m: &HashMap<K, V, S, A>) -> usize { m_len() }
    fn map_clear<K, V, S, A: std::alloc::Allocator>(_m: &mut HashMap<K, V, S, A>) { let mut i = 0; while i < G { unsafe { M_USED[i] = false; } i += 1; } }

    fn dq_push_back<T, A: std::alloc::Allocator>(_d: &mut VecDeque<T, A>, v: T) { unsafe { kani::assume(Q_LEN <= G); Q_BUF[Q_LEN] = as_u64(&v); Q_LEN += 1; } }
    fn dq_pop_front<T, A: std::alloc::Allocator>(_d: &mut VecDeque<T, A>) -> Option<T> {
        unsafe {
            if Q_LEN == 0 { return None; }
            let v = Q_BUF[0];
            let mut i = 0; while i + 1 < G + 1 { Q_BUF[i] = Q_BUF[i + 1]; i += 1; }
            Q_LEN -= 1;
            Some(from_u64(v))
        }
    }
    fn dq_clear<T, A: std::alloc::Allocator>(_d: &mut VecDeque<T, A>) { unsafe { Q_LEN = 0; } }
    fn dq_len<T, A: std::alloc::Allocator>(_d: &VecDeque<T, A>) -> usize { unsafe { Q_LEN } }

    #[kani::proof]
    #[kani::unwind(6)]
    #[kani::stub(std::collections::HashMap::insert, map_insert)]
    #[kani::stub(std::collections::HashMap::remove, map_remove)]
    #[kani::stub(std::collections::HashMap::get, map_get)]
    #[kani::stub(std::collections::HashMap::len, map_len)]
    #[kani::stub(std::collections::HashMap::clear, map_clear)]
    #[kani::stub(std::collections::VecDeque::push_back, dq_push_back)]
    #[kani::stub(std::collections::VecDeque::pop_front, dq_pop_front)]
    #[kani::stub(std::collections::VecDeque::clear, dq_clear)]
    #[kani::stub(std::collections::VecDeque::len, dq_len)]
    fn table_ghost_3() {
        let cap: usize = kani::any();
        kani::assume(cap >= 1 && cap <= 3);
        let mut t = Table::new(cap);
        let k1: u64 = kani::any(); let k2: u64 = kani::any(); let k3: u64 = kani::any();
        t.put(k1, 1);
        t.put(k2, 2);
        t.put(k3, 3);
        assert!(t.len() <= cap);
        assert_eq!(t.get(k3), Some(3));
        assert_eq!(t.len(), t.queue_len());
        if cap == 1 && k1 != k3 { assert_eq!(t.get(k1), None); }
    }

    use inkayaku_uci::parser::CommandParser;
    use inkayaku_core::constants::{Square, Piece};

    #[kani::proof]
    #[kani::unwind(10)]
    fn dispatch_8() {
        let bytes: [u8; 8] = kani::any();
        let len: usize = kani::any();
        kani::assume(len <= 8);
        let mut i = 0;
        while i < 8 { kani::assume(bytes[i] < 128); i += 1; }
        // first token is not "go": exclude lines whose first non-space bytes are 'g','o'
        let s = unsafe { std::str::from_utf8_unchecked(&bytes[..len]) };
        kani::assume(!s.trim_start_matches(' ').starts_with("go"));
        let r = CommandParser::new(s).parse();
        core::mem::forget(r);
    }

    #[kani::proof]
    #[kani::unwind(8)]
    fn move_roundtrip() {
        let a: usize = kani::any(); let b: usize = kani::any();
        kani::assume(a < 64 && b < 64);
        let p: usize = kani::any();
        kani::assume(p <= 6);
        let mv = UciMove { source: Square::from_index(a).unwrap(), target: Square::from_index(b).unwrap(), promote_to: Piece::from_index(p) };
        let text = mv.to_string();
        let back = UciMove::from_str(&text);
        assert!(back == Ok(mv));
    }

    #[kani::proof]
    #[kani::unwind(4)]
    fn fifty_and_terminal() {
        let w = any_side(1);
        let b = any_side(1);
        kani::assume(all(&w) & all(&b) == 0);
        let turn: u32 = kani::any();
        kani::assume(turn < 2);
        let half: u32 = kani::any();
        kani::assume(half <= 150);
        let full: u32 = kani::any();
        kani::assume(full >= 1 && full < 100000);
        let p = Bitboard { white: bverif::player_state(w, false, false), black: bverif::player_state(b, false, false), turn, en_passant_square_shift: 0, fullmove_clock: full, halfmove_clock: half };
        let p0 = Bitboard { white: bverif::player_state(w, false, false), black: bverif::player_state(b, false, false), turn, en_passant_square_shift: 0, fullmove_clock: full, halfmove_clock: 0 };
        let e = everif::evaluate(&p, true);
        if half >= 100 { assert_eq!(e, 0); } else { assert_eq!(e, everif::evaluate(&p0, true)); }
    }
}
