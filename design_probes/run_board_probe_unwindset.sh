#!/bin/bash
# usage: run2.sh <harness> <timeout_s> <piece_loop_bound> <targetdir>
H=$1; T=$2; PB=$3; TD=$4
cd /tmp/probe/kp
export CARGO_NET_OFFLINE=true RUSTFLAGS="--cfg inkayaku_verif"
PFX="_RNvMs2_NtCsdDCfK9ySG9J_14inkayaku_board5boardNtB5_8Bitboard"
US="${PFX}13sliding_moves.0:$PB,${PFX}12single_moves.0:$PB,${PFX}12pawn_attacks.0:$PB,${PFX}10pawn_moves.0:$PB,${PFX}16generate_attacks.0:15,${PFX}21generate_pawn_attacks.0:3,_RNvMs5_NtCsdDCfK9ySG9J_14inkayaku_board5boardNtB5_8Bitboard26zobrist_hash_for_occupancy.0:3,_RNvCsdfPqZBRzmDV_2kp3ray.0:8,_RNvNtCsdfPqZBRzmDV_2kp8refchess8attacked.0:9,_RNvNtCsdfPqZBRzmDV_2kp8refchess8attacked.1:9,_RNvNtCsdfPqZBRzmDV_2kp8refchess8attacked.2:9,_RNvNtCsdfPqZBRzmDV_2kp6proofs13any_pos_kinds.0:4"
/usr/bin/time -v timeout $T cargo kani --target-dir $TD --exact --harness proofs::$H -Z stubbing -Z unstable-options --no-assertion-reach-checks --cbmc-args --unwindset "$US" > /tmp/probe/log_$H.txt 2>&1
echo "== $H"; grep -v "aborting path" /tmp/probe/log_$H.txt | grep -E "^SUMMARY|\*\* |^VERIFICATION|Verification Time|Maximum resident|Elapsed \(wall|FAILED|^error|Runtime" | head
