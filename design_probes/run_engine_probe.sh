#!/bin/bash
H=$1; T=$2; TD=$3; shift 3
cd /tmp/probe/ke
export CARGO_NET_OFFLINE=true RUSTFLAGS="--cfg inkayaku_verif"
/usr/bin/time -v timeout $T cargo kani --target-dir $TD --exact --harness proofs::$H -Z stubbing -Z unstable-options --no-assertion-reach-checks "$@" > /tmp/probe/log_$H.txt 2>&1
echo "== $H"; grep -v "aborting path" /tmp/probe/log_$H.txt | grep -E "^SUMMARY|\*\* |^VERIFICATION|Verification Time|Maximum resident|Elapsed \(wall|^error|Runtime Symex|Runtime Solver" | head -12
grep -B4 -A4 "Status: FAILURE" /tmp/probe/log_$H.txt | grep -E "Description|Location" | head -10
